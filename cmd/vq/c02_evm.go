package main

// Shared EVM harness of C02 (value conservation) and C05 (all-or-nothing off-chain sends).
//
// Everything here drives the REAL code: vm.EVM / core.ApplyMessage over a real state.StateDB on a
// memory database, with a BlockContext produced by the real core.NewEVMBlockContext from a harness
// header and a tiny ChainContext (parent / prime-terminus lookup only; ETX eligibility is answered
// by the real HeaderChain.CheckIfEtxIsEligible, which is a pure function of its arguments).
// Fork regimes are selected through the header's prime-terminus / zone numbers, computed from the
// fork heights in package params at start-up.

import (
	"fmt"
	"io"
	"math/big"
	"sort"
	"strings"

	"github.com/dominant-strategies/go-quai/common"
	"github.com/dominant-strategies/go-quai/consensus"
	"github.com/dominant-strategies/go-quai/core"
	"github.com/dominant-strategies/go-quai/core/rawdb"
	"github.com/dominant-strategies/go-quai/core/state"
	"github.com/dominant-strategies/go-quai/core/types"
	"github.com/dominant-strategies/go-quai/core/vm"
	"github.com/dominant-strategies/go-quai/ethdb"
	"github.com/dominant-strategies/go-quai/log"
	"github.com/dominant-strategies/go-quai/params"
	"github.com/holiman/uint256"
	"github.com/sirupsen/logrus"
)

var c02Loc = common.Location{0, 0}

// ---- addresses -------------------------------------------------------------------------------

func c02Addr(b0, b1, tag byte) common.Address {
	var b [20]byte
	b[0], b[1] = b0, b1
	for i := 2; i < 19; i++ {
		b[i] = 0x5a
	}
	b[19] = tag
	return common.BytesToAddress(b[:], c02Loc)
}

var (
	c02S   = c02Addr(0x00, 0x01, 0xe1) // funded EOA, in-zone Quai
	c02A   = c02Addr(0x00, 0x02, 0xa1) // contract A
	c02B   = c02Addr(0x00, 0x03, 0xb1) // contract B
	c02N   = c02Addr(0x00, 0x04, 0xf1) // fresh (non-existent) in-zone Quai address
	c02M   = c02Addr(0x00, 0x08, 0xd1) // beneficiary miner of lockup records
	c02CB  = c02Addr(0x00, 0x07, 0xc1) // block coinbase
	c02Q   = c02Addr(0x00, 0x86, 0x91) // in-zone Qi address
	c02X   = c02Addr(0x01, 0x05, 0x71) // foreign zone 0-1, Quai ledger, ETX-eligible
	c02X2  = c02Addr(0x02, 0x05, 0x72) // foreign zone 0-2, Quai ledger, NOT eligible
	c02XQ  = c02Addr(0x01, 0x85, 0x73) // foreign zone 0-1, Qi ledger
	c02P1  = common.HexToAddress("0x0000000000000000000000000000000000000001", c02Loc)
	c02KQ  = common.HexToAddress("0x00640d82EF6552085e494DF2a2EAec18D8215913", c02Loc) // kQuai setter
	c02LK  common.Address                                                              // lockup contract (set in c02Init)
	c02Z   = common.ZeroAddress(c02Loc)
	c02Nam = map[string]string{}
)

func c02Int(a common.Address) common.InternalAddress {
	ia, err := a.InternalAndQuaiAddress()
	if err != nil {
		panic("harness: not an in-zone Quai address: " + a.Hex())
	}
	return ia
}

func c02Name(a common.Address) string {
	if n, ok := c02Nam[strings.ToLower(a.Hex())]; ok {
		return n
	}
	return a.Hex()
}

// ---- logging ---------------------------------------------------------------------------------

var c02Logger *logrus.Logger

var c02InitDone bool

// c02Init silences the global logger (it would otherwise create nodelogs/ under the cwd = /repo),
// registers the precompiles of zone 0-0 and computes the fork regimes.
func c02Init() {
	if c02InitDone {
		return
	}
	c02InitDone = true
	log.Global.SetOutput(io.Discard)
	log.Global.SetLevel(logrus.PanicLevel)
	log.Global.ExitFunc = func(int) { panic("logger.Fatal called") }
	c02Logger = logrus.New()
	c02Logger.SetOutput(io.Discard)
	c02Logger.SetLevel(logrus.PanicLevel)
	c02Logger.ExitFunc = func(int) { panic("logger.Fatal called") }
	vm.InitializePrecompiles(c02Loc)
	c02LK = vm.LockupContractAddresses[[2]byte{c02Loc[0], c02Loc[1]}]
	for n, a := range map[string]common.Address{"S": c02S, "A": c02A, "B": c02B, "N": c02N, "M": c02M, "coinbase": c02CB, "Q": c02Q,
		"X": c02X, "X2": c02X2, "XQ": c02XQ, "precompile1": c02P1, "kQuaiSetter": c02KQ, "lockup": c02LK, "zero": c02Z} {
		c02Nam[strings.ToLower(a.Hex())] = n
	}
	c02Regimes = c02MakeRegimes()
}

// ---- fork regimes ----------------------------------------------------------------------------

type c02Regime struct {
	Name          string `json:"name"`
	PrimeTerminus uint64 `json:"prime_terminus_number"`
	ZoneNumber    uint64 `json:"zone_number"`
}

var c02Regimes []c02Regime

func c02MakeRegimes() []c02Regime {
	maxu := func(v ...uint64) uint64 {
		m := uint64(0)
		for _, x := range v {
			if x > m {
				m = x
			}
		}
		return m
	}
	allPrime := maxu(params.ControllerKickInBlock, params.KawPowForkBlock+params.KQuaiChangeHoldInterval,
		params.ShaEquivalentDifficultyForkBlock+params.KQuaiChangeHoldInterval, params.SelfDestructRefundForkBlock,
		params.ConversionStabilityForkBlock, params.SingularityForkBlock, params.QiWrappingChangeBlock) + 1000
	allZone := maxu(uint64(params.MaxCodeSizeForkHeight), params.MaxGrindIncreaseForkBlock.Uint64(), params.BlocksPerYear, params.QiActivationBlock) + 1000
	mid := params.ControllerKickInBlock + 1000 // conversions allowed, every later fork still inactive
	if mid >= params.KawPowForkBlock || mid >= params.SelfDestructRefundForkBlock || mid >= params.ShaEquivalentDifficultyForkBlock {
		panic("harness: fork heights no longer ordered as assumed (controller < kawpow/sha/selfdestruct forks)")
	}
	return []c02Regime{
		{"R0-genesis-era", 1, 10},
		{"Rm-controller-era", mid, 5 * mid},
		{"R1-all-forks", allPrime, allZone},
	}
}

// ---- chain context ---------------------------------------------------------------------------

type c02Chain struct {
	byHash map[common.Hash]*types.WorkObject
}

func (c *c02Chain) Engine(*types.WorkObjectHeader) consensus.Engine { return nil }
func (c *c02Chain) GetHeaderOrCandidateByHash(h common.Hash) *types.WorkObject {
	return c.byHash[h]
}
func (c *c02Chain) NodeCtx() int                                            { return common.ZONE_CTX }
func (c *c02Chain) IsGenesisHash(common.Hash) bool                          { return false }
func (c *c02Chain) GetHeaderByHash(h common.Hash) *types.WorkObject         { return c.byHash[h] }
func (c *c02Chain) GetBlockByHash(h common.Hash) *types.WorkObject          { return c.byHash[h] }
func (c *c02Chain) CheckInCalcOrderCache(common.Hash) (*big.Int, int, bool) { return nil, 0, false }
func (c *c02Chain) AddToCalcOrderCache(common.Hash, int, *big.Int)          {}
func (c *c02Chain) CalcBaseFee(*types.WorkObject) *big.Int                  { return new(big.Int).Set(c02BaseFee) }
func (c *c02Chain) CalcOrder(*types.WorkObject) (*big.Int, int, error) {
	return big.NewInt(0), common.ZONE_CTX, nil
}

// CheckIfEtxIsEligible delegates to the real implementation (it does not touch its receiver).
func (c *c02Chain) CheckIfEtxIsEligible(h common.Hash, l common.Location) bool {
	return (*core.HeaderChain)(nil).CheckIfEtxIsEligible(h, l)
}

var (
	c02BaseFee       = big.NewInt(1_000_000_000)
	c02GasPrice      = big.NewInt(2_000_000_007)
	c02BlockGasLimit = uint64(50_000_000)
	c02StateSize     = big.NewInt(1000)
	c02ParentHash    = common.HexToHash("0x1111111111111111111111111111111111111111111111111111111111111111")
	c02TermHash      = common.HexToHash("0x2222222222222222222222222222222222222222222222222222222222222222")
	c02BlockHash     = common.HexToHash("0x3333333333333333333333333333333333333333333333333333333333333333")
	c02TxHash        = common.HexToHash("0x4444444444444444444444444444444444444444444444444444444444444444")
)

// c02Env is one fork regime: chain config, header, parent and the real BlockContext.
type c02Env struct {
	Regime   c02Regime
	Cfg      *params.ChainConfig
	Chain    *c02Chain
	Header   *types.WorkObject
	Parent   *types.WorkObject
	BlockCtx vm.BlockContext
}

func c02NewEnv(rg c02Regime) (*c02Env, error) {
	c02Init()
	cfg := *params.TestChainConfig
	cfg.Location = c02Loc
	chain := &c02Chain{byHash: map[common.Hash]*types.WorkObject{}}

	parent := types.EmptyWorkObject(common.ZONE_CTX)
	parent.WorkObjectHeader().SetLocation(c02Loc)
	parent.WorkObjectHeader().SetNumber(new(big.Int).SetUint64(rg.ZoneNumber - 1))
	parent.WorkObjectHeader().SetTime(1_700_000_000)
	parent.Header().SetQuaiStateSize(new(big.Int).Set(c02StateSize))

	term := types.EmptyWorkObject(common.ZONE_CTX)
	var elig common.Hash
	loc := *c02X.Location()
	pos := loc.Region()*16 + loc.Zone()
	elig[pos/8] |= 1 << uint(pos%8) // only the zone of X accepts ETXs
	term.Header().SetEtxEligibleSlices(elig)

	header := types.EmptyWorkObject(common.ZONE_CTX)
	header.WorkObjectHeader().SetLocation(c02Loc)
	header.WorkObjectHeader().SetNumber(new(big.Int).SetUint64(rg.ZoneNumber))
	header.WorkObjectHeader().SetParentHash(c02ParentHash)
	header.WorkObjectHeader().SetPrimeTerminusNumber(new(big.Int).SetUint64(rg.PrimeTerminus))
	header.WorkObjectHeader().SetPrimaryCoinbase(c02CB)
	header.WorkObjectHeader().SetTime(1_700_000_005)
	header.WorkObjectHeader().SetDifficulty(big.NewInt(1_000_000))
	header.Header().SetBaseFee(new(big.Int).Set(c02BaseFee))
	header.Header().SetGasLimit(c02BlockGasLimit)
	header.Header().SetPrimeTerminusHash(c02TermHash)
	chain.byHash[c02ParentHash] = parent
	chain.byHash[c02TermHash] = term

	bctx, err := core.NewEVMBlockContext(header, parent, chain, nil)
	if err != nil {
		return nil, err
	}
	if bctx.PrimeTerminusNumber != rg.PrimeTerminus || bctx.BlockNumber.Uint64() != rg.ZoneNumber || bctx.BaseFee.Cmp(c02BaseFee) != 0 {
		return nil, fmt.Errorf("block context does not reflect the harness header: %+v", bctx)
	}
	if !bctx.CheckIfEtxEligible(bctx.EtxEligibleSlices, *c02X.Location()) || bctx.CheckIfEtxEligible(bctx.EtxEligibleSlices, *c02X2.Location()) {
		return nil, fmt.Errorf("eligibility set-up wrong")
	}
	return &c02Env{Regime: rg, Cfg: &cfg, Chain: chain, Header: header, Parent: parent, BlockCtx: bctx}, nil
}

// Refund is the state-rent refund credited on self-destruct in this regime.
func (e *c02Env) Refund() *big.Int {
	return new(big.Int).Mul(e.BlockCtx.BaseFee, new(big.Int).SetUint64(params.CallNewAccountGas(e.BlockCtx.QuaiStateSize)))
}

// ---- pre-state -------------------------------------------------------------------------------

type c02Account struct {
	Addr    common.Address
	Balance *big.Int
	Nonce   uint64
	Code    []byte
	Storage map[common.Hash]common.Hash
}

type c02Lockup struct {
	Owner, Miner, Delegate common.Address
	LockupByte             byte
	Epoch                  uint32
	Balance                *big.Int
	UnlockHeight           uint32
	Elements               uint16
}

// c02World is a committed pre-state: state database (memory), root and the list of accounts.
type c02World struct {
	DB       ethdb.Database
	SDB      state.Database
	Root     common.Hash
	Accounts []common.Address
}

func c02BuildWorld(accts []c02Account, lockups []c02Lockup) (*c02World, error) {
	c02Init()
	db := rawdb.NewMemoryDatabase(c02Logger)
	sdb := state.NewDatabase(db)
	st, err := state.New(common.Hash{}, common.Hash{}, new(big.Int).Set(c02StateSize), sdb, sdb, nil, c02Loc, c02Logger)
	if err != nil {
		return nil, err
	}
	w := &c02World{DB: db, SDB: sdb}
	for _, a := range accts {
		ia := c02Int(a.Addr)
		st.CreateAccount(ia)
		if a.Balance != nil {
			st.SetBalance(ia, new(big.Int).Set(a.Balance))
		}
		if a.Nonce != 0 {
			st.SetNonce(ia, a.Nonce)
		}
		if len(a.Code) > 0 {
			st.SetCode(ia, a.Code)
		}
		for k, v := range a.Storage {
			st.SetState(ia, k, v)
		}
		w.Accounts = append(w.Accounts, a.Addr)
	}
	root, err := st.Commit(false)
	if err != nil {
		return nil, err
	}
	w.Root = root
	for _, l := range lockups {
		if _, err := rawdb.WriteCoinbaseLockup(db, l.Owner, l.Miner, l.LockupByte, l.Epoch, l.Balance, l.UnlockHeight, l.Elements, l.Delegate); err != nil {
			return nil, err
		}
	}
	return w, nil
}

// Open returns a fresh StateDB on the committed pre-state and a fresh block batch.
func (w *c02World) Open() (*state.StateDB, ethdb.Batch, error) {
	st, err := state.New(w.Root, common.Hash{}, new(big.Int).Set(c02StateSize), w.SDB, w.SDB, nil, c02Loc, c02Logger)
	if err != nil {
		return nil, nil, err
	}
	b := w.DB.NewBatch()
	b.SetPending(true) // the block processor tracks pending writes of the block batch
	return st, b, nil
}

// c02Dump is a full balance dump: every pre-state account plus every live state object.
type c02Dump map[common.InternalAddress]*big.Int

func c02DumpBalances(w *c02World, st *state.StateDB) c02Dump {
	d := c02Dump{}
	for _, a := range w.Accounts {
		ia := c02Int(a)
		d[ia] = new(big.Int).Set(st.GetBalance(ia))
	}
	for _, ia := range st.VerifLiveAddresses() {
		if _, ok := d[ia]; !ok {
			d[ia] = new(big.Int).Set(st.GetBalance(ia))
		}
	}
	return d
}

func (d c02Dump) Sum() *big.Int {
	s := new(big.Int)
	for _, v := range d {
		s.Add(s, v)
	}
	return s
}

func (d c02Dump) Keys() []common.InternalAddress {
	ks := make([]common.InternalAddress, 0, len(d))
	for k := range d {
		ks = append(ks, k)
	}
	sort.Slice(ks, func(i, j int) bool { return string(ks[i][:]) < string(ks[j][:]) })
	return ks
}

func c02IntName(ia common.InternalAddress) string {
	return c02Name(common.BytesToAddress(ia[:], c02Loc))
}

// ---- tiny assembler --------------------------------------------------------------------------

type c02Asm struct{ b []byte }

func (a *c02Asm) Op(ops ...vm.OpCode) *c02Asm {
	for _, o := range ops {
		a.b = append(a.b, byte(o))
	}
	return a
}

// PushBytes pushes a big-endian constant with the shortest PUSHn (PUSH1 0 for zero; PUSH0 is
// fork-gated and therefore not used).
func (a *c02Asm) PushBytes(v []byte) *c02Asm {
	for len(v) > 1 && v[0] == 0 {
		v = v[1:]
	}
	if len(v) == 0 {
		v = []byte{0}
	}
	if len(v) > 32 {
		panic("push > 32 bytes")
	}
	a.b = append(a.b, byte(vm.PUSH1)+byte(len(v)-1))
	a.b = append(a.b, v...)
	return a
}
func (a *c02Asm) Push(v uint64) *c02Asm      { return a.PushBytes(new(big.Int).SetUint64(v).Bytes()) }
func (a *c02Asm) PushBig(v *big.Int) *c02Asm { return a.PushBytes(v.Bytes()) }
func (a *c02Asm) PushAddr(x common.Address) *c02Asm {
	a.b = append(a.b, byte(vm.PUSH20))
	a.b = append(a.b, x.Bytes()...)
	return a
}
func (a *c02Asm) Raw(b []byte) *c02Asm { a.b = append(a.b, b...); return a }
func (a *c02Asm) Bytes() []byte        { return append([]byte{}, a.b...) }

// MStoreBytes writes data to memory[off:] with PUSH32/MSTORE words (zero padded to 32).
func (a *c02Asm) MStoreBytes(off uint64, data []byte) *c02Asm {
	for i := 0; i < len(data); i += 32 {
		var w [32]byte
		copy(w[:], data[i:])
		a.b = append(a.b, byte(vm.PUSH32))
		a.b = append(a.b, w[:]...)
		a.Push(off + uint64(i)).Op(vm.MSTORE)
	}
	return a
}

var c02Max256 = new(big.Int).Sub(new(big.Int).Lsh(big.NewInt(1), 256), big.NewInt(1))

func c02U256(v *big.Int) *uint256.Int {
	u, over := uint256.FromBig(v)
	if over {
		panic("uint256 overflow in harness constant")
	}
	return u
}

// c02ErrClass maps an error to a short stable class name for outcome statistics.
func c02ErrClass(err error) string {
	if err == nil {
		return "ok"
	}
	s := err.Error()
	for _, k := range []string{"out of gas", "execution reverted", "invalid opcode", "stack underflow", "insufficient balance for transfer",
		"access list", "write protection", "max call depth", "contract address collision", "contract creation code storage out of gas",
		"insufficient funds for gas * price + value", "insufficient funds for transfer", "intrinsic gas too low", "nonce too low", "nonce too high",
		"not sufficient gas for ETX", "not sufficient gas", "is not eligible", "cannot transfer", "overflow", "in chain scope", "not allowed before",
		"not sufficient value", "qi scope", "etx gas limit", "no wrapped Qi", "not enough wrapped Qi", "no lockup to claim", "not unlocked", "epoch is not less",
		"different ledgers", "external", "invalid data used", "not allowed from the kQuaiSettingAddress", "grinding", "unable to", "gas uint64 overflow", "invalid jump"} {
		if strings.Contains(strings.ToLower(s), strings.ToLower(k)) {
			return strings.ReplaceAll(k, " ", "-")
		}
	}
	if len(s) > 40 {
		s = s[:40]
	}
	return "other:" + s
}
