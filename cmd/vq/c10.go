package main

// C10 — reorganisation leaves exactly the state of the winning branch.
//
// All ordered pairs (A,B) of distinct branches over a block-content alphabet, grown from a common
// prefix that already holds spendable Qi outputs and a trimmable output whose trim height falls
// inside the branches. Each branch is first built on its own node (prefix + branch only): that
// node is the differential reference. A third node receives prefix·A (head follows), then the
// blocks of B (inserted, head unchanged), then switches head to B's tip, back to A's tip and to B
// again. After every switch its canonical projection (flat UTXO + lockup ledger, address index,
// number->hash map, head pointers, stored multiset/size) must equal the reference node's, and the
// C06(c) commitment oracle must hold.

import (
	"errors"
	"fmt"
	"math/big"
	"sort"
	"strings"
	"time"

	"github.com/dominant-strategies/go-quai/core"
	"github.com/dominant-strategies/go-quai/core/types"
	"github.com/dominant-strategies/go-quai/verifshim/vx"
)

func init() {
	register(vx.CheckSpec{ID: "C10", Shards: 16, QuickBudget: 110 * time.Second, ThoroughBudg: 25 * time.Minute, Run: runC10, ReplayFn: replayC10})
}

// block-content operations of a branch block
// "CH": a block from a foreign miner in which q0 spends a denomination-6 output into an output for q1
// and q1 spends THAT output again (to q2) in the same block - a chain the node's own worker never
// assembles (it reads inputs from the committed ledger only)
// "DUP": a foreign miner's block with a Qi transaction that names one outpoint twice; Process must
// refuse the body, i.e. no such block exists (outcome "not applicable"); if it does not, the block is
// built and every oracle runs on it
var c10Ops = []string{"empty", "S6a", "S6b", "S3", "G", "T", "CH", "DUP"}

type c10Case struct {
	A []int `json:"branchA"`
	B []int `json:"branchB"`
}

// c10Prefix: conversion prefix, then a block in which q0 spends its denomination-2 output into a
// denomination-1 output O owned by q1 (trimmed 3 blocks later, i.e. in the 2nd branch block unless
// a branch spends it first), then one empty block.
func c10BuildPrefix() (*scen, error) {
	s, err := newScen(3, true, nil)
	if err != nil {
		return nil, err
	}
	if err := s.runWord(scenPrefixes["C14"]); err != nil {
		return nil, err
	}
	tx := s.qiSpendDenom(s.q[0], 2, 0, s.q[1].Addr.Bytes(), 1)
	if tx == nil {
		return nil, fmt.Errorf("prefix: no denomination-2 output to spend")
	}
	if errs := s.n.AddTxs(tx); errs[0] != nil {
		return nil, fmt.Errorf("prefix: pool refused Qi spend: %v", errs[0])
	}
	blk, err := s.mine(core.VBuildOpts{Order: 2, Fill: true})
	if err != nil {
		return nil, err
	}
	if len(blk.Transactions()) == 0 {
		return nil, fmt.Errorf("prefix: Qi spend not included")
	}
	if _, err := s.mine(core.VBuildOpts{Order: 2, Fill: true}); err != nil {
		return nil, err
	}
	return s, nil
}

// c10Replicate builds a fresh node that followed the given blocks (foreign blocks, head follows).
func c10Replicate(blocks []*types.WorkObject) (*scen, error) {
	s, err := newScen(3, true, nil)
	if err != nil {
		return nil, err
	}
	for i, b := range blocks {
		if r := s.n.Append(b); r.Err() != nil {
			s.close()
			return nil, fmt.Errorf("replicate block %d: %v", i, r.Err())
		}
	}
	return s, nil
}

// c10ApplyOp puts the op's transaction (if any) into the mempool; returns false if not applicable.
func c10ApplyOp(s *scen, op int) (bool, error) {
	var tx *types.Transaction
	switch c10Ops[op] {
	case "empty":
		return true, nil
	case "S6a":
		tx = s.qiSpendDenom(s.q[0], 6, 0, s.q[1].Addr.Bytes(), 5)
	case "S6b":
		tx = s.qiSpendDenom(s.q[0], 6, 0, s.q[2].Addr.Bytes(), 5)
	case "S3":
		// two outputs (denominations 2 and 1, to two owners): a block that creates several outputs
		tx = s.qiSpendSplit(s.q[0], 3, s.q[1].Addr, 2, s.q[2].Addr, 1)
	case "G":
		// spend the lowest-denomination unlocked output owned by q1 (created by an earlier spend)
		for d := uint8(1); d <= 6 && tx == nil; d++ {
			tx = s.qiSpendDenom(s.q[1], d, 0, s.q[2].Addr.Bytes(), d-1)
		}
	case "CH":
		tx = s.qiSpendDenom(s.q[0], 6, 0, s.q[1].Addr.Bytes(), 5)
		if tx == nil {
			return false, nil
		}
		second := core.VQiTx(s.n.ChainID(), core.VZoneLoc, []core.VQiIn{{Hash: tx.Hash(), Index: 0, Key: s.q[1]}},
			[]core.VQiOut{{Denom: 4, Addr: s.q[2].Addr}}, nil, s.q[1])
		s.extra = []*types.Transaction{second}
	case "DUP":
		utxos, _ := core.VScanUtxos(s.n.DB[2])
		for _, u := range utxos {
			if string(u.Entry.Address) != string(s.q[0].Addr.Bytes()) || u.Entry.Denomination != 6 {
				continue
			}
			in := core.VQiIn{Hash: u.Hash, Index: u.Index, Key: s.q[0]}
			var dup *types.Transaction
			if perr := vx.Guard(func() {
				dup = core.VQiTxMulti(s.n.ChainID(), core.VZoneLoc, []core.VQiIn{in, in},
					[]core.VQiOut{{Denom: 6, Addr: s.q[1].Addr}, {Denom: 5, Addr: s.q[2].Addr}}, nil, []*core.VKey{s.q[0], s.q[0]})
			}); perr != "" || dup == nil {
				return false, nil
			}
			s.extra = []*types.Transaction{dup}
			return true, nil
		}
		return false, nil
	case "T":
		to := s.k[1].Addr
		tx = s.n.QuaiTx(s.k[0], s.nonce(s.k[0]), &to, big.NewInt(5), 21000, scenPrice, nil)
	}
	if tx == nil {
		return false, nil
	}
	if errs := s.n.AddTxs(tx); errs[0] != nil {
		return false, nil // refused by the pool (e.g. fee too small): treat as not applicable
	}
	return true, nil
}

type c10Branch struct {
	ops          []int
	blocks       []*types.WorkObject
	canon        map[string]string
	txs          int
	commitBroken bool
}

func c10BuildBranch(prefix []*types.WorkObject, ops []int, salt int64) (*c10Branch, error) {
	s, err := c10Replicate(prefix)
	if err != nil {
		return nil, err
	}
	defer s.close()
	br := &c10Branch{ops: ops}
	for i, op := range ops {
		ok, err := c10ApplyOp(s, op)
		if err != nil {
			return nil, err
		}
		if !ok {
			return nil, nil // not applicable
		}
		blk, err := s.mine(s.opts(core.VBuildOpts{Order: 2, Fill: true, Salt: salt*8 + int64(i)}))
		var refused core.VForeignRefused
		if errors.As(err, &refused) {
			return nil, nil // no valid block with this content exists: not applicable
		}
		if err != nil {
			return nil, fmt.Errorf("branch %v block %d: own block rejected: %w", ops, i, err)
		}
		if c10Ops[op] != "empty" && len(blk.Transactions()) == 0 {
			return nil, nil // the worker did not include it: not applicable as a distinct branch
		}
		br.txs += len(blk.Transactions())
		if err := s.n.VCheckCommitments(blk); err != nil {
			// the reference node itself has commitments that do not describe its DB: that is C06's
			// finding, not a reorganisation defect. Keep the branch (differential oracle still
			// applies) but do not evaluate the commitment oracle on its tip.
			br.commitBroken = true
		}
		br.blocks = append(br.blocks, blk)
	}
	br.canon = s.n.VCanon()
	return br, nil
}

func c10Branches(maxLen int) [][]int {
	var out [][]int
	var rec func(cur []int)
	rec = func(cur []int) {
		if len(cur) > 0 {
			out = append(out, append([]int{}, cur...))
		}
		if len(cur) == maxLen {
			return
		}
		for i := range c10Ops {
			rec(append(cur, i))
		}
	}
	rec(nil)
	return out
}

func c10CanonDiff(got, want map[string]string) string {
	var ks []string
	for k := range want {
		ks = append(ks, k)
	}
	sort.Strings(ks)
	var out []string
	for _, k := range ks {
		if got[k] != want[k] {
			out = append(out, fmt.Sprintf("%s: reorganised node has %s / node that only saw the winner has %s", k, c10Delta(got[k], want[k]), c10Delta(want[k], got[k])))
		}
	}
	return strings.Join(out, "\n")
}

// c10Delta lists the ';'- or ' '-separated items of a that are not in b (shortened).
func c10Delta(a, b string) string {
	sep := ";"
	if !strings.Contains(a, ";") && !strings.Contains(b, ";") {
		sep = " "
	}
	have := map[string]bool{}
	for _, x := range strings.Split(b, sep) {
		have[x] = true
	}
	var extra []string
	for _, x := range strings.Split(a, sep) {
		if !have[x] && x != "" {
			if len(x) > 150 {
				x = x[:150] + "…"
			}
			extra = append(extra, x)
		}
	}
	if len(extra) > 6 {
		extra = append(extra[:6], "…")
	}
	return fmt.Sprintf("extra%v", extra)
}

// c10RunPair returns "" or (key, desc) of the first divergence.
func c10RunPair(prefix []*types.WorkObject, a, b *c10Branch, rounds int) (string, string) {
	s, err := c10Replicate(append(append([]*types.WorkObject{}, prefix...), a.blocks...))
	if err != nil {
		return "harness", err.Error()
	}
	defer s.close()
	for i, blk := range b.blocks {
		if _, err := s.n.Insert(blk); err != nil {
			return "insert-side-branch", fmt.Sprintf("side-branch block %d refused by Insert: %v", i, err)
		}
	}
	tips := []*c10Branch{b, a, b, a}
	for r := 0; r < rounds; r++ {
		t := tips[r]
		tip := t.blocks[len(t.blocks)-1]
		var herr error
		if perr := vx.Guard(func() { herr = s.n.SetHead(tip, 2) }); perr != "" {
			return "panic:" + vx.PanicSite(perr), "panic while switching head: " + perr
		}
		if herr != nil {
			return fmt.Sprintf("switch%d-error", r), fmt.Sprintf("switch %d to tip of %v failed: %v", r, t.ops, herr)
		}
		if d := c10CanonDiff(s.n.VCanon(), t.canon); d != "" {
			var fields []string
			for _, l := range strings.Split(d, "\n") {
				fields = append(fields, strings.SplitN(l, ":", 2)[0])
			}
			return fmt.Sprintf("switch%d:%s", r, strings.Join(fields, "+")), fmt.Sprintf("after switch %d (to %v):\n%s", r, c10Names(t.ops), d)
		}
		if t.commitBroken {
			continue
		}
		if err := s.n.VCheckCommitments(tip); err != nil {
			return fmt.Sprintf("switch%d:commitment:%s", r, strings.SplitN(err.Error(), ":", 2)[0]), fmt.Sprintf("after switch %d: %v", r, err)
		}
	}
	return "", ""
}

func c10Names(ops []int) []string {
	var n []string
	for _, o := range ops {
		n = append(n, c10Ops[o])
	}
	return n
}

func runC10(c *vx.Ctx) {
	core.VScaleParams(core.VR1)
	c.Rule = "all ordered pairs of distinct applicable branches (sequences of block contents from {empty, two conflicting spends of a pre-fork output, spend of another output, spend of a branch-created/trimmable output, Quai transfer}) from a common 14-block prefix; 3 head switches per pair; outcome class = (ops of A, ops of B) shape x verdict; block contents include two foreign-miner blocks assembled with recomputed declared results (in-block chained spend; one outpoint twice); lockups: sibling blocks at every height that touches contract lockup records; map-order: one-block branch pairs under 12 fixed map-iteration draws"
	c.Assume("scaled protocol constants: " + fmt.Sprint(core.VScaled))
	c.Assume("branches consist of zone-order blocks (the reorganisation under test is the zone HeaderChain.SetCurrentHeader); the prefix contains region and prime blocks")
	maxLen, rounds := 2, 2
	if c.Thorough() {
		maxLen, rounds = 3, 4
	}
	if !c.Wants("branch-pairs") {
		if c.Wants("lockups") {
			c10Lockups(c)
		}
		c10MapOrder(c)
		return
	}
	p := c.Part("branch-pairs")
	p.Bound("branch_length", maxLen)
	p.Bound("ops", c10Ops)
	p.Bound("head_switches_per_pair", rounds)
	ps, err := c10BuildPrefix()
	if err != nil {
		c.HarnessError("prefix: " + err.Error())
		return
	}
	prefix := ps.blocks
	ps.close()
	var branches []*c10Branch
	for i, ops := range c10Branches(maxLen) {
		br, err := c10BuildBranch(prefix, ops, int64(i+1))
		if err != nil {
			c.HarnessError(err.Error())
			return
		}
		if br == nil {
			p.Outcome("branch-n/a")
			continue
		}
		if br.commitBroken {
			p.Outcome("branch-with-broken-reference-commitment(C06)")
		}
		branches = append(branches, br)
	}
	p.Bound("applicable_branches", len(branches))
	if c.Shard == 0 {
		p.States = int64(len(branches) * (len(branches) - 1))
	}
	var idx int64
	for _, a := range branches {
		for _, b := range branches {
			if a == b {
				continue
			}
			idx++
			if !c.Mine(idx) {
				continue
			}
			if c.Expired() {
				p.Incomplete("deadline")
				if c.Wants("lockups") {
					c10Lockups(c)
				}
				c10MapOrder(c)
				return
			}
			p.Transitions += int64(rounds)
			p.Traces += int64(rounds)
			key, desc := c10RunPair(prefix, a, b, rounds)
			if key == "harness" {
				c.HarnessError(desc)
				return
			}
			cls := fmt.Sprintf("A.txs=%d,B.txs=%d", a.txs, b.txs)
			if key != "" {
				p.Outcome(cls + "=>DIVERGED")
				cs := c10Case{A: a.ops, B: b.ops}
				if c.Confirm(desc, func() string { k, _ := c10RunPair(prefix, a, b, rounds); return k }) {
					c.Violate("branch-pairs", key, fmt.Sprintf("A=%v B=%v: %s", c10Names(a.ops), c10Names(b.ops), desc), cs)
				}
			} else {
				p.Outcome(cls + "=>equal")
				p.Sample(map[string]any{"A": c10Names(a.ops), "B": c10Names(b.ops)})
			}
		}
	}
	if c.Wants("lockups") {
		c10Lockups(c)
	}
	c10MapOrder(c)
}

func replayC10(c *vx.Ctx, v vx.Violation) string {
	if v.Part == "map-order" {
		return replayViaVqm(v)
	}
	core.VScaleParams(core.VR1)
	raw, _ := jsonMarshal(v.Replay)
	if v.Part == "lockups" {
		core.VScaleLockBytes()
		var cs map[string]int
		if err := jsonUnmarshal(raw, &cs); err != nil {
			return "bad replay: " + err.Error()
		}
		_, d, _ := c10LRun(cs["block_index"], cs["delegates"])
		return d
	}
	var cs c10Case
	if err := jsonUnmarshal(raw, &cs); err != nil {
		return "bad replay: " + err.Error()
	}
	ps, err := c10BuildPrefix()
	if err != nil {
		return "harness: " + err.Error()
	}
	prefix := ps.blocks
	ps.close()
	a, err := c10BuildBranch(prefix, cs.A, 1)
	if err != nil {
		return err.Error()
	}
	if len(cs.B) == 0 || a == nil {
		return ""
	}
	b, err := c10BuildBranch(prefix, cs.B, 2)
	if err != nil || b == nil {
		return fmt.Sprint(err)
	}
	_, d := c10RunPair(prefix, a, b, 4)
	return d
}

func init() { register(vx.CheckSpec{ID: "c10dbg", Shards: 1, Run: runC10dbg}) }

func runC10dbg(c *vx.Ctx) {
	core.VScaleParams(core.VR1)
	p := c.Part("dbg")
	p.States = 1
	ps, err := c10BuildPrefix()
	if err != nil {
		c.HarnessError(err.Error())
		return
	}
	prefix := ps.blocks
	ps.close()
	pairs := [][2][]int{{{0, 1}, {0}}, {{5, 2}, {0, 2}}, {{0, 2}, {5, 2}}, {{2, 2}, {0, 2}}}
	for _, pr := range pairs {
		a, err1 := c10BuildBranch(prefix, pr[0], 1)
		b, err2 := c10BuildBranch(prefix, pr[1], 2)
		if a == nil || b == nil {
			fmt.Println("n/a", pr, err1, err2)
			continue
		}
		for i := 0; i < 6; i++ {
			k, d := c10RunPair(prefix, a, b, 3)
			fmt.Printf("pair %v run %d key=%q\n%s\n", pr, i, k, d)
		}
	}
}
