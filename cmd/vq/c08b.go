package main

// C08 part (b): binding. Every field of WorkObjectHeader and of the body Header (found by reflection,
// so a newly added field cannot be skipped silently) and every body component gets every
// single-field change from a small per-type menu. The mutated block is pushed through the wire form
// (a change that does not survive encoding is not a change of content) and then:
//
//   - WorkObjectHeader consensus field  -> the seal hash (the input of every real kernel) must change;
//     for a merge-mined block the real verifyHeader must reject the old donor proof on it.
//   - nonce / mixHash                    -> part of the PoW solution itself (kernel input / claimed output).
//   - body Header field                  -> Header.Hash() must change and the real verifyHeader must reject
//     the block while WorkObjectHeader.headerHash still commits to the old header.
//   - txs / etxs / uncles / manifest / interlink -> the real ValidateBody of the context must reject.

import (
	"bytes"
	"fmt"
	"math/big"
	"reflect"
	"regexp"
	"sort"
	"sync/atomic"
	"unsafe"

	"github.com/dominant-strategies/go-quai/common"
	"github.com/dominant-strategies/go-quai/core"
	"github.com/dominant-strategies/go-quai/core/types"
	"github.com/dominant-strategies/go-quai/trie"
	"github.com/dominant-strategies/go-quai/verifshim/vx"
	"google.golang.org/protobuf/proto"
)

type c08BCase struct {
	Regime   string `json:"regime"`
	Baseline string `json:"baseline"` // prog | kaw | region | prime
	Struct   string `json:"struct"`   // WorkObjectHeader | Header | Body
	Field    string `json:"field"`    // e.g. lock, number[1], shaDiffAndCount.count, uncles
	Mut      string `json:"mutation"`
	Field2   string `json:"field2,omitempty"` // thorough: second simultaneous change (WorkObjectHeader only)
	Mut2     string `json:"mutation2,omitempty"`
}

// ---------- generic single-value mutation menu ----------

type c08Leaf struct {
	path string
	v    reflect.Value // settable
}

func c08Settable(f reflect.Value) reflect.Value {
	return reflect.NewAt(f.Type(), unsafe.Pointer(f.UnsafeAddr())).Elem()
}

var (
	c08TBig   = reflect.TypeOf((*big.Int)(nil))
	c08THash  = reflect.TypeOf(common.Hash{})
	c08TAddr  = reflect.TypeOf(common.Address{})
	c08TLoc   = reflect.TypeOf(common.Location{})
	c08TNonce = reflect.TypeOf(types.BlockNonce{})
	c08TBytes = reflect.TypeOf([]byte{})
	c08TAux   = reflect.TypeOf((*types.AuxPow)(nil))
	c08TPsd   = reflect.TypeOf((*types.PowShareDiffAndCount)(nil))
)

// c08Leaves lists the mutable leaves of a struct (pointer to struct value), in declaration order.
// unknown lists fields whose type the menu does not know (=> harness error, never silently skipped).
func c08Leaves(ptr reflect.Value) (leaves []c08Leaf, caches []string, unknown []string) {
	sv := ptr.Elem()
	st := sv.Type()
	for i := 0; i < st.NumField(); i++ {
		f := c08Settable(sv.Field(i))
		name := st.Field(i).Name
		ft := f.Type()
		switch {
		case ft.String() == "atomic.Value":
			caches = append(caches, name)
		case ft == c08TBig, ft == c08THash, ft == c08TAddr, ft == c08TLoc, ft == c08TNonce, ft == c08TBytes, ft == c08TAux,
			ft.Kind() == reflect.Uint64, ft.Kind() == reflect.Uint32, ft.Kind() == reflect.Uint16, ft.Kind() == reflect.Uint8:
			leaves = append(leaves, c08Leaf{name, f})
		case ft == c08TPsd:
			leaves = append(leaves, c08Leaf{name, f})
			if !f.IsNil() {
				inner := f.Elem()
				for j := 0; j < inner.NumField(); j++ {
					leaves = append(leaves, c08Leaf{name + "." + inner.Type().Field(j).Name, c08Settable(inner.Field(j))})
				}
			}
		case ft.Kind() == reflect.Slice && (ft.Elem() == c08THash || ft.Elem() == c08TBig):
			for j := 0; j < f.Len(); j++ {
				leaves = append(leaves, c08Leaf{fmt.Sprintf("%s[%d]", name, j), f.Index(j)})
			}
			leaves = append(leaves, c08Leaf{name + "[len]", f})
		default:
			unknown = append(unknown, name+" "+ft.String())
		}
	}
	return
}

// c08Menu returns the names of the mutations applicable to the leaf's CURRENT value.
func c08Menu(l c08Leaf, loc common.Location) []string {
	v := l.v
	t := v.Type()
	switch {
	case t == c08TBig:
		if v.IsNil() {
			return []string{"nil->0", "nil->1"}
		}
		b := v.Interface().(*big.Int)
		m := []string{"+1", "<<8", "+2^64"}
		if b.Sign() > 0 {
			m = append(m, "-1", "zero")
		}
		return m
	case t == c08THash:
		h := v.Interface().(common.Hash)
		m := []string{"flip-bit0", "flip-bit255"}
		if h != (common.Hash{}) {
			m = append(m, "zero")
		}
		return m
	case t == c08TAddr:
		return []string{"flip-last-bit", "flip-byte10"}
	case t == c08TLoc:
		return []string{"zone+1", "region+1", "drop-zone", "empty", "extend"}
	case t == c08TNonce:
		return []string{"+1", "flip-msb"}
	case t == c08TBytes:
		m := []string{"append-00", "prepend-00"}
		if v.Len() > 0 {
			m = append(m, "flip-bit0", "flip-last-bit", "drop-last", "empty")
		}
		return m
	case t == c08TAux:
		if v.IsNil() {
			return nil // attaching a proof is part (c)
		}
		return []string{"nil"}
	case t == c08TPsd:
		if v.IsNil() {
			return nil
		}
		return []string{"nil"}
	case t.Kind() == reflect.Slice: // [len] pseudo leaf
		return []string{"drop-last", "append-zero"}
	case t.Kind() == reflect.Uint64, t.Kind() == reflect.Uint32, t.Kind() == reflect.Uint16, t.Kind() == reflect.Uint8:
		m := []string{"+1", "flip-msb"}
		if v.Uint() != 0 {
			m = append(m, "zero")
		}
		return m
	}
	return nil
}

func c08Apply(l c08Leaf, mut string, loc common.Location) bool {
	v := l.v
	t := v.Type()
	switch {
	case t == c08TBig:
		var b *big.Int
		if !v.IsNil() {
			b = new(big.Int).Set(v.Interface().(*big.Int))
		}
		switch mut {
		case "nil->0":
			b = big.NewInt(0)
		case "nil->1":
			b = big.NewInt(1)
		case "+1":
			b.Add(b, big.NewInt(1))
		case "-1":
			b.Sub(b, big.NewInt(1))
		case "zero":
			b = big.NewInt(0)
		case "<<8":
			if b.Sign() == 0 {
				b = big.NewInt(256)
			} else {
				b.Lsh(b, 8)
			}
		case "+2^64":
			b.Add(b, new(big.Int).Lsh(big.NewInt(1), 64))
		default:
			return false
		}
		v.Set(reflect.ValueOf(b))
	case t == c08THash:
		h := v.Interface().(common.Hash)
		switch mut {
		case "flip-bit0":
			h[31] ^= 1
		case "flip-bit255":
			h[0] ^= 0x80
		case "zero":
			h = common.Hash{}
		default:
			return false
		}
		v.Set(reflect.ValueOf(h))
	case t == c08TAddr:
		a := v.Interface().(common.Address)
		b := append([]byte{}, a.Bytes()...)
		switch mut {
		case "flip-last-bit":
			b[len(b)-1] ^= 1
		case "flip-byte10":
			b[10] ^= 0xff
		default:
			return false
		}
		v.Set(reflect.ValueOf(common.BytesToAddress(b, loc)))
	case t == c08TLoc:
		l0 := append(common.Location{}, v.Interface().(common.Location)...)
		switch mut {
		case "zone+1":
			if len(l0) < 2 {
				return false
			}
			l0[1]++
		case "region+1":
			if len(l0) < 1 {
				return false
			}
			l0[0]++
		case "drop-zone":
			if len(l0) < 2 {
				return false
			}
			l0 = l0[:1]
		case "empty":
			l0 = common.Location{}
		case "extend":
			l0 = append(l0, 0)
		default:
			return false
		}
		v.Set(reflect.ValueOf(l0))
	case t == c08TNonce:
		n := v.Interface().(types.BlockNonce)
		switch mut {
		case "+1":
			n = types.EncodeNonce(n.Uint64() + 1)
		case "flip-msb":
			n[0] ^= 0x80
		default:
			return false
		}
		v.Set(reflect.ValueOf(n))
	case t == c08TBytes:
		b := append([]byte{}, v.Bytes()...)
		switch mut {
		case "append-00":
			b = append(b, 0)
		case "prepend-00":
			b = append([]byte{0}, b...)
		case "flip-bit0":
			b[0] ^= 1
		case "flip-last-bit":
			b[len(b)-1] ^= 1
		case "drop-last":
			b = b[:len(b)-1]
		case "empty":
			b = []byte{}
		default:
			return false
		}
		v.SetBytes(b)
	case t == c08TAux, t == c08TPsd:
		if mut != "nil" {
			return false
		}
		v.Set(reflect.Zero(t))
	case t.Kind() == reflect.Slice:
		switch mut {
		case "drop-last":
			if v.Len() == 0 {
				return false
			}
			v.Set(v.Slice(0, v.Len()-1))
		case "append-zero":
			if t.Elem() == c08TBig {
				v.Set(reflect.Append(v, reflect.ValueOf(big.NewInt(0))))
			} else {
				v.Set(reflect.Append(v, reflect.Zero(t.Elem())))
			}
		default:
			return false
		}
	default:
		x := v.Uint()
		bits := uint(t.Bits())
		switch mut {
		case "+1":
			x++
		case "flip-msb":
			x ^= 1 << (bits - 1)
		case "zero":
			x = 0
		default:
			return false
		}
		v.SetUint(x & (1<<bits - 1 | 1<<(bits-1)))
	}
	return true
}

// ---------- wire form ----------

func c08Wire(wo *types.WorkObject) (raw []byte, err error) {
	perr := vx.Guard(func() {
		var pw *types.ProtoWorkObject
		pw, err = wo.ProtoEncode(types.BlockObject)
		if err == nil {
			raw, err = proto.MarshalOptions{Deterministic: true}.Marshal(pw)
		}
	})
	if perr != "" {
		return nil, fmt.Errorf("encode panicked at %s", c08PanicSite(perr))
	}
	return
}

func c08Unwire(raw []byte, loc common.Location) (wo *types.WorkObject, err error) {
	perr := vx.Guard(func() {
		pw := new(types.ProtoWorkObject)
		if err = proto.Unmarshal(raw, pw); err != nil {
			return
		}
		wo = new(types.WorkObject)
		err = wo.ProtoDecode(pw, loc, types.BlockObject)
	})
	if perr != "" {
		return nil, fmt.Errorf("decode panicked at %s", c08PanicSite(perr))
	}
	return
}

// c08DeepCopy: a fresh, fully independent copy (through the wire form, as a peer would receive it).
func c08DeepCopy(wo *types.WorkObject, loc common.Location) *types.WorkObject {
	raw, err := c08Wire(wo)
	if err != nil {
		panic("harness: baseline does not encode: " + err.Error())
	}
	cp, err := c08Unwire(raw, loc)
	if err != nil {
		panic("harness: baseline does not decode: " + err.Error())
	}
	return cp
}

// ---------- kernel input of the real engines (what each kernel hashes) ----------

func c08KernelInput(wh *types.WorkObjectHeader) string {
	if wh.AuxPow() != nil && wh.KawpowActivationHappened() {
		h := wh.AuxPow().Header()
		switch wh.AuxPow().PowID() {
		case types.Kawpow: // kawpow.ComputePowLight: donor seal hash, nonce64, height (+ claimed mix)
			return fmt.Sprintf("kawpow|%x|%d|%d|%x", h.SealHash(), h.Nonce64(), h.Height(), h.MixHash())
		default: // sha256d / scrypt over the 80-byte donor header
			return fmt.Sprintf("donor|%x", h.Bytes())
		}
	}
	// progpow.ComputePowLight: seal hash, nonce, primeTerminusNumber (+ claimed mix); blake3pow: Hash() = H(mix,seal,nonce)
	return fmt.Sprintf("progpow|%x|%d|%d|%x", wh.SealHash(), wh.NonceU64(), wh.PrimeTerminusNumber().Uint64(), wh.MixHash())
}

var c08SolutionFields = map[string]bool{"nonce": true, "mixHash": true, "auxPow": true}

type c08BResult struct {
	class, key, bad string
}

func c08Baseline(w *c08World, name string) (blk, parent *types.WorkObject) {
	switch name {
	case "prog":
		return w.Prog, w.ProgP
	case "kaw":
		return w.Kaw, w.KawP
	}
	return nil, nil
}

func c08Validate(w *c08World, blk, parent *types.WorkObject) (verdict string) {
	var e1, e2 error
	if perr := vx.Guard(func() { e1 = w.Env.VerifyHeader(blk, parent, false) }); perr != "" {
		return "panic:" + c08PanicSite(perr)
	}
	if e1 != nil {
		return "verifyHeader: " + e1.Error()
	}
	if perr := vx.Guard(func() { e2 = w.Env.ValidateBody(blk) }); perr != "" {
		return "panic:" + c08PanicSite(perr)
	}
	if e2 != nil {
		return "ValidateBody: " + e2.Error()
	}
	return ""
}

var c08HexRe = regexp.MustCompile(`(0x)?[0-9a-fA-F]{6,}|[0-9]+`)

// c08ErrClass strips the variable parts of an error text (hashes, numbers) to get a stable class.
func c08ErrClass(s string) string {
	s = c08HexRe.ReplaceAllString(s, "#")
	if len(s) > 70 {
		s = s[:70]
	}
	return s
}

// c08EvalBHeader executes one (pair of) WorkObjectHeader / Header field change(s).
func c08EvalBHeader(w *c08World, cs c08BCase) c08BResult {
	base, parent := c08Baseline(w, cs.Baseline)
	loc := w.Env.Loc
	baseRaw, _ := c08Wire(base)
	ref := c08DeepCopy(base, loc)
	mutd := c08DeepCopy(base, loc)
	var target reflect.Value
	if cs.Struct == "WorkObjectHeader" {
		target = reflect.ValueOf(mutd.WorkObjectHeader())
	} else {
		target = reflect.ValueOf(mutd.Body().Header())
	}
	applyOne := func(field, mut string) bool {
		leaves, _, _ := c08Leaves(target)
		for _, l := range leaves {
			if l.path == field {
				return c08Apply(l, mut, loc)
			}
		}
		return false
	}
	if !applyOne(cs.Field, cs.Mut) {
		return c08BResult{class: "harness:mutation-not-applicable"}
	}
	if cs.Field2 != "" && !applyOne(cs.Field2, cs.Mut2) {
		return c08BResult{class: "n/a"}
	}
	raw, err := c08Wire(mutd)
	if err != nil {
		return c08BResult{class: "unencodable"}
	}
	if bytes.Equal(raw, baseRaw) {
		return c08BResult{class: "wire-noop"}
	}
	got, err := c08Unwire(raw, loc)
	if err != nil {
		return c08BResult{class: "reject:decode:" + c08ErrClass(err.Error())}
	}
	raw2, _ := c08Wire(got)
	if bytes.Equal(raw2, baseRaw) {
		return c08BResult{class: "wire-noop(decode-normalises)"}
	}
	var sealChanged, hdrHashChanged, kernelChanged, blockHashChanged bool
	if perr := vx.Guard(func() {
		sealChanged = got.SealHash() != ref.SealHash()
		hdrHashChanged = got.Body().Header().Hash() != ref.Body().Header().Hash()
		kernelChanged = c08KernelInput(got.WorkObjectHeader()) != c08KernelInput(ref.WorkObjectHeader())
		blockHashChanged = got.Hash() != ref.Hash()
	}); perr != "" {
		return c08BResult{class: "panic:hashing:" + c08PanicSite(perr)}
	}
	verdict := c08Validate(w, got, parent)
	where := fmt.Sprintf("%s/%s %s.%s %s", cs.Regime, cs.Baseline, cs.Struct, cs.Field, cs.Mut)
	if cs.Field2 != "" {
		where += fmt.Sprintf(" + %s %s", cs.Field2, cs.Mut2)
	}
	fieldKey := c08FieldKey(cs.Field)
	if cs.Struct == "WorkObjectHeader" {
		root := fieldKey
		if i := indexByte(root, '.'); i >= 0 {
			root = root[:i]
		}
		if c08SolutionFields[root] && cs.Field2 == "" {
			switch {
			case kernelChanged:
				return c08BResult{class: "solution-field:kernel-input-changes"}
			case verdict != "":
				return c08BResult{class: "solution-field:rejected"}
			default:
				// not covered by seal hash, block hash or kernel: only legitimate for the vestigial
				// nonce/mixHash of a merge-mined header (the statement excludes nonce/mix from the seal)
				return c08BResult{class: "solution-field:vestigial-unbound(" + root + ")"}
			}
		}
		if !sealChanged {
			return c08BResult{class: "SEAL-INDEPENDENT", key: "sealhash:" + cs.Regime + ":" + cs.Baseline + ":" + fieldKey,
				bad: fmt.Sprintf("%s: the wire content changes but WorkObjectHeader.SealHash() (the kernel input) does not; validation verdict on the changed block: %q", where, verdict)}
		}
		if base.AuxPow() != nil && !kernelChanged && verdict == "" {
			return c08BResult{class: "DONOR-PROOF-REUSED", key: "auxpow-reuse:" + cs.Regime + ":" + fieldKey,
				bad: fmt.Sprintf("%s: the seal hash changed, the donor proof (kernel input) is unchanged, yet verifyHeader+ValidateBody accept the block", where)}
		}
		cl := "seal-changes"
		if !blockHashChanged {
			cl += ",block-hash-same"
		}
		if verdict == "" {
			cl += ",revalidates(new work needed)"
		} else {
			cl += ",rejected"
		}
		return c08BResult{class: cl}
	}
	// body Header
	if !hdrHashChanged {
		return c08BResult{class: "HEADER-HASH-INDEPENDENT", key: "headerhash:" + cs.Regime + ":" + fieldKey,
			bad: fmt.Sprintf("%s: the wire content changes but Header.Hash() does not; verdict %q", where, verdict)}
	}
	if verdict == "" {
		return c08BResult{class: "HEADER-CHANGE-ACCEPTED", key: "header-unbound:" + cs.Regime + ":" + fieldKey,
			bad: fmt.Sprintf("%s: Header.Hash() changed while WorkObjectHeader.headerHash (sealed) still names the old header, yet verifyHeader+ValidateBody accept", where)}
	}
	return c08BResult{class: "header-hash-changes,rejected:" + c08ErrClass(verdict)}
}

func indexByte(s string, b byte) int {
	for i := 0; i < len(s); i++ {
		if s[i] == b {
			return i
		}
	}
	return -1
}

// c08FieldKey drops the array index: number[1] -> number
func c08FieldKey(f string) string {
	if i := indexByte(f, '['); i >= 0 {
		return f[:i]
	}
	return f
}

// ---------- body components ----------

var c08BodyMuts = []string{"append", "drop-last", "duplicate-last", "swap-first-two", "alter-first", "clear"}

func c08SynthEtx(i int, loc common.Location) *types.Transaction {
	to := common.BytesToAddress([]byte{0, byte(i + 1), 3, 4, 5, 6, 7, 8, 9, 10, 11, 12, 13, 14, 15, 16, 17, 18, 19, 20}, loc)
	return types.NewTx(&types.ExternalTx{OriginatingTxHash: common.BytesToHash([]byte{byte(0x30 + i)}), ETXIndex: uint16(i), Gas: 21000, To: &to, Value: big.NewInt(int64(1000 + i)), Data: []byte{0}, Sender: to, EtxType: types.DefaultType})
}

// c08BodyBaseline returns a self-consistent block whose every list has >= 2 entries, accepted by the
// real ValidateBody of the context, and that context's ValidateBody.
func c08BodyBaseline(w *c08World, name string) (*types.WorkObject, func(*types.WorkObject) error, common.Location, error) {
	switch name {
	case "prog", "kaw":
		b, _ := c08Baseline(w, name)
		loc := w.Env.Loc
		blk := c08DeepCopy(b, loc)
		txs := types.Transactions{c08SynthEtx(0, loc), c08SynthEtx(1, loc), c08SynthEtx(2, loc)}
		etxs := append(types.Transactions{}, blk.OutboundEtxs()...)
		etxs = append(etxs, c08SynthEtx(7, loc), c08SynthEtx(8, loc))
		blk.Body().SetTransactions(txs)
		blk.Body().SetOutboundEtxs(etxs)
		blk.Body().Header().SetTxHash(types.DeriveSha(txs, trie.NewStackTrie(nil)))
		blk.Body().Header().SetOutboundEtxHash(types.DeriveSha(etxs, trie.NewStackTrie(nil)))
		blk.WorkObjectHeader().SetHeaderHash(blk.Body().Header().Hash())
		blk = c08DeepCopy(blk, loc)
		return blk, w.Env.ValidateBody, loc, nil
	case "region", "prime":
		loc := common.Location{0}
		if name == "prime" {
			loc = common.Location{}
		}
		ctx := loc.Context()
		blk := c08DeepCopy(w.Prog, w.Env.Loc)
		blk.Body().SetTransactions(nil)
		blk.Body().SetOutboundEtxs(nil)
		blk.Body().SetUncles(nil)
		man := types.BlockManifest{common.BytesToHash([]byte{0xa1}), common.BytesToHash([]byte{0xa2}), common.BytesToHash([]byte{0xa3})}
		il := common.Hashes{common.BytesToHash([]byte{0xb1}), common.BytesToHash([]byte{0xb2}), common.BytesToHash([]byte{0xb3}), common.BytesToHash([]byte{0xb4})}
		blk.Body().SetManifest(man)
		blk.Body().Header().SetManifestHash(types.DeriveSha(man, trie.NewStackTrie(nil)), ctx+1)
		if name == "prime" {
			blk.Body().SetInterlinkHashes(il)
			blk.Body().Header().SetInterlinkRootHash(types.DeriveSha(il, trie.NewStackTrie(nil)))
		}
		blk.WorkObjectHeader().SetHeaderHash(blk.Body().Header().Hash())
		blk = c08DeepCopy(blk, w.Env.Loc)
		return blk, core.VerifC08BodyValidator(loc), w.Env.Loc, nil
	}
	return nil, nil, nil, fmt.Errorf("unknown body baseline %s", name)
}

func c08MutList(n int, mut string, get func(i int) any, mk func() any, alter func(x any) any) ([]any, bool) {
	items := make([]any, n)
	for i := range items {
		items[i] = get(i)
	}
	switch mut {
	case "append":
		return append(items, mk()), true
	case "drop-last":
		if n == 0 {
			return nil, false
		}
		return items[:n-1], true
	case "duplicate-last":
		if n == 0 {
			return nil, false
		}
		return append(items, items[n-1]), true
	case "swap-first-two":
		if n < 2 {
			return nil, false
		}
		items[0], items[1] = items[1], items[0]
		return items, true
	case "alter-first":
		if n == 0 {
			return nil, false
		}
		items[0] = alter(items[0])
		return items, true
	case "clear":
		if n == 0 {
			return nil, false
		}
		return nil, true
	}
	return nil, false
}

func c08EvalBBody(w *c08World, cs c08BCase) c08BResult {
	base, validate, loc, err := c08BodyBaseline(w, cs.Baseline)
	if err != nil {
		return c08BResult{class: "harness:" + err.Error()}
	}
	var berr error
	if perr := vx.Guard(func() { berr = validate(base) }); perr != "" || berr != nil {
		return c08BResult{class: fmt.Sprintf("harness:body-baseline-rejected:%v%s", berr, perr)}
	}
	baseRaw, _ := c08Wire(base)
	mutd := c08DeepCopy(base, loc)
	body := mutd.Body()
	ok := false
	switch cs.Field {
	case "transactions", "outboundEtxs":
		cur := body.Transactions()
		if cs.Field == "outboundEtxs" {
			cur = body.OutboundEtxs()
		}
		items, k := c08MutList(len(cur), cs.Mut, func(i int) any { return cur[i] }, func() any { return c08SynthEtx(40, loc) },
			func(x any) any {
				t := x.(*types.Transaction)
				to := *t.To()
				return types.NewTx(&types.ExternalTx{OriginatingTxHash: t.OriginatingTxHash(), ETXIndex: t.ETXIndex(), Gas: t.Gas(), To: &to, Value: new(big.Int).Add(t.Value(), big.NewInt(1)), Data: t.Data(), Sender: t.ETXSender(), EtxType: t.EtxType()})
			})
		ok = k
		if ok {
			out := make(types.Transactions, len(items))
			for i, x := range items {
				out[i] = x.(*types.Transaction)
			}
			if cs.Field == "transactions" {
				body.SetTransactions(out)
			} else {
				body.SetOutboundEtxs(out)
			}
		}
	case "uncles":
		cur := body.Uncles()
		items, k := c08MutList(len(cur), cs.Mut, func(i int) any { return cur[i] }, func() any {
			u := types.CopyWorkObjectHeader(mutd.WorkObjectHeader())
			u.SetTime(u.Time() + 1000)
			return u
		}, func(x any) any {
			u := types.CopyWorkObjectHeader(x.(*types.WorkObjectHeader))
			u.SetPrimaryCoinbase(common.BytesToAddress([]byte{0, 9, 9, 9, 5, 6, 7, 8, 9, 10, 11, 12, 13, 14, 15, 16, 17, 18, 19, 21}, loc))
			return u
		})
		ok = k
		if ok {
			out := make([]*types.WorkObjectHeader, len(items))
			for i, x := range items {
				out[i] = x.(*types.WorkObjectHeader)
			}
			body.SetUncles(out)
		}
	case "manifest", "interlinkHashes":
		var cur []common.Hash
		if cs.Field == "manifest" {
			cur = body.Manifest()
		} else {
			cur = body.InterlinkHashes()
		}
		items, k := c08MutList(len(cur), cs.Mut, func(i int) any { return cur[i] }, func() any { return common.BytesToHash([]byte{0xee}) },
			func(x any) any { h := x.(common.Hash); h[31] ^= 1; return h })
		ok = k
		if ok {
			out := make([]common.Hash, len(items))
			for i, x := range items {
				out[i] = x.(common.Hash)
			}
			if cs.Field == "manifest" {
				body.SetManifest(out)
			} else {
				body.SetInterlinkHashes(out)
			}
		}
	}
	if !ok {
		return c08BResult{class: "n/a"}
	}
	raw, err := c08Wire(mutd)
	if err != nil {
		return c08BResult{class: "unencodable"}
	}
	if bytes.Equal(raw, baseRaw) {
		return c08BResult{class: "wire-noop"}
	}
	got, err := c08Unwire(raw, loc)
	if err != nil {
		return c08BResult{class: "reject:decode:" + c08ErrClass(err.Error())}
	}
	if raw2, _ := c08Wire(got); bytes.Equal(raw2, baseRaw) {
		return c08BResult{class: "wire-noop(decode-normalises)"}
	}
	if got.SealHash() != base.SealHash() || got.Body().Header().Hash() != base.Body().Header().Hash() {
		return c08BResult{class: "harness:body-mutation-touched-header"}
	}
	var verr error
	if perr := vx.Guard(func() { verr = validate(got) }); perr != "" {
		return c08BResult{class: "panic:" + c08PanicSite(perr)}
	}
	if verr == nil {
		sanity := "n/a"
		if cs.Baseline == "prog" || cs.Baseline == "kaw" {
			if e := w.Env.SanityBlock(got); e != nil {
				sanity = "rejects: " + e.Error()
			} else {
				sanity = "accepts"
			}
		}
		return c08BResult{class: "BODY-CHANGE-ACCEPTED", key: "body-unbound:" + c08CtxOf(cs.Baseline) + ":" + cs.Field,
			bad: fmt.Sprintf("%s/%s body.%s %s: seal hash, header hash and every root in the header are unchanged, the body differs on the wire (%d -> %d bytes), and the real ValidateBody of the %s context accepts it (gossip-only SanityCheckWorkObjectBlockViewBody: %s)", cs.Regime, cs.Baseline, cs.Field, cs.Mut, len(baseRaw), len(raw), c08CtxOf(cs.Baseline), sanity)}
	}
	return c08BResult{class: "rejected:" + c08ErrClass(verr.Error())}
}

func c08CtxOf(baseline string) string {
	switch baseline {
	case "region", "prime":
		return baseline
	}
	return "zone"
}

// ---------- enumeration ----------

func c08RunB(c *vx.Ctx, w *c08World, idx *int64) {
	p := c.Part("binding")
	reported := map[string]bool{}
	baselines := []string{"prog"}
	if w.Regime == "R2" {
		baselines = append(baselines, "kaw")
	}
	run := func(cs c08BCase, body bool) {
		*idx++
		atomic.AddInt64(&c08Progress, 1)
		if !c.Mine(*idx) {
			return
		}
		var r c08BResult
		if body {
			r = c08EvalBBody(w, cs)
		} else {
			r = c08EvalBHeader(w, cs)
		}
		p.Transitions++
		p.Traces++
		p.Outcome(cs.Regime + ":" + cs.Baseline + ":" + cs.Struct + ":" + c08ShortClass(r.class))
		if len(r.class) > 8 && r.class[:8] == "harness:" {
			c.HarnessError(fmt.Sprintf("binding %+v: %s", cs, r.class))
			return
		}
		if len(r.class) >= 9 && r.class[:9] == "wire-noop" && !body {
			p.Note("change does not reach the wire form (%s): %s.%s %s", cs.Regime, cs.Struct, cs.Field, cs.Mut)
		}
		if len(r.class) > 15 && r.class[:15] == "solution-field:" && len(r.class) > 24 && r.class[15:24] == "vestigial" {
			p.Note("%s/%s: WorkObjectHeader.%s (a PoW-solution field the statement excludes from the seal) is covered by neither seal hash, block hash nor kernel input of a merge-mined header: vestigial, freely malleable on the wire", cs.Regime, cs.Baseline, cs.Field)
		}
		if r.bad != "" && !reported[r.key] {
			reported[r.key] = true
			cs := cs
			if c.Confirm(r.bad, func() string {
				if body {
					return c08EvalBBody(w, cs).key
				}
				return c08EvalBHeader(w, cs).key
			}) {
				c.Violate("binding", r.key, r.bad, c08Replay{Part: "binding", B: &cs})
			}
		} else if r.bad == "" && p.Transitions%97 == 1 {
			p.Sample(map[string]any{"case": cs, "outcome": r.class})
		}
	}
	fieldsSeen := map[string]bool{}
	for _, bn := range baselines {
		base, _ := c08Baseline(w, bn)
		if v := c08Validate(w, c08DeepCopy(base, w.Env.Loc), map[string]*types.WorkObject{"prog": w.ProgP, "kaw": w.KawP}[bn]); v != "" {
			c.HarnessError(fmt.Sprintf("baseline %s/%s is not accepted by the real validation: %s", w.Regime, bn, v))
			return
		}
		for _, st := range []string{"WorkObjectHeader", "Header"} {
			probe := c08DeepCopy(base, w.Env.Loc)
			var target reflect.Value
			if st == "WorkObjectHeader" {
				target = reflect.ValueOf(probe.WorkObjectHeader())
			} else {
				target = reflect.ValueOf(probe.Body().Header())
			}
			leaves, caches, unknown := c08Leaves(target)
			for _, u := range unknown {
				c.HarnessError("binding: field of unknown type is not covered: " + st + "." + u)
			}
			p.Bound(st+"_cache_fields_skipped", caches)
			type fm struct{ f, m string }
			var all []fm
			for _, l := range leaves {
				fieldsSeen[st+"."+c08FieldKey(l.path)] = true
				for _, m := range c08Menu(l, w.Env.Loc) {
					all = append(all, fm{l.path, m})
				}
			}
			for _, x := range all {
				if c.Expired() {
					p.Incomplete("deadline")
					return
				}
				run(c08BCase{Regime: w.Regime, Baseline: bn, Struct: st, Field: x.f, Mut: x.m}, false)
			}
			// thorough: every PAIR of simultaneous WorkObjectHeader consensus-field changes must still
			// move the seal hash (no two fields can compensate each other in the encoding)
			if c.Thorough() && st == "WorkObjectHeader" {
				for i := 0; i < len(all); i++ {
					for j := i + 1; j < len(all); j++ {
						ri, rj := c08FieldKey(all[i].f), c08FieldKey(all[j].f)
						if ri == rj || c08SolutionFields[ri] || c08SolutionFields[rj] {
							continue
						}
						if k := indexByte(ri, '.'); k >= 0 && all[j].f == ri[:k] {
							continue
						}
						if k := indexByte(rj, '.'); k >= 0 && all[i].f == rj[:k] {
							continue
						}
						if c.Expired() {
							p.Incomplete("deadline")
							return
						}
						run(c08BCase{Regime: w.Regime, Baseline: bn, Struct: st, Field: all[i].f, Mut: all[i].m, Field2: all[j].f, Mut2: all[j].m}, false)
					}
				}
			}
		}
	}
	bodyBases := append([]string{}, baselines...)
	if w.Regime == "R0" {
		bodyBases = append(bodyBases, "region", "prime")
	}
	for _, bn := range bodyBases {
		for _, f := range []string{"transactions", "outboundEtxs", "uncles", "manifest", "interlinkHashes"} {
			for _, m := range c08BodyMuts {
				run(c08BCase{Regime: w.Regime, Baseline: bn, Struct: "Body", Field: f, Mut: m}, true)
			}
		}
	}
	if c.Shard == 0 {
		names := make([]string, 0, len(fieldsSeen))
		for k := range fieldsSeen {
			names = append(names, k)
		}
		sort.Strings(names)
		p.Bound("fields_enumerated_"+w.Regime, names)
		p.States += int64(len(names))
	}
}
