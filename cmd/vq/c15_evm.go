package main

// C15 part (b): interpreter memory accounting.
//
// Every memory-touching opcode x every operand tuple from the boundary menu x gas menu, singly and
// in pairs, is executed by the REAL interpreter (evm.Call on a real StateDB) with a Tracer that
// records, per step, the frame depth, the gas before the step and Memory.Len() after the
// interpreter's pre-execution resize. Oracle (the statement):
//   - no panic;
//   - whenever a step grows the frame's memory from a to b bytes, the gas consumed by that step is
//     >= memcost(b) - memcost(a), memcost(n) = 3*w + w*w/512, w = n/32 (the memory-expansion cost);
//   - the largest frame memory ever observed is <= the largest size purchasable with the gas
//     limit, and the sum over live frames is <= 32*gas/3.
// Cases with an operand >= 2^31 are executed in a separate process under RLIMIT_AS so that an
// unmetered allocation kills that process (=> violation `...:alloc-beyond-gas`), not the machine.

import (
	"bufio"
	"context"
	"encoding/json"
	"fmt"
	"math/big"
	"os"
	"os/exec"
	"strings"
	"time"

	"github.com/holiman/uint256"

	"github.com/dominant-strategies/go-quai/common"
	"github.com/dominant-strategies/go-quai/core"
	"github.com/dominant-strategies/go-quai/core/rawdb"
	"github.com/dominant-strategies/go-quai/core/state"
	"github.com/dominant-strategies/go-quai/core/vm"
	"github.com/dominant-strategies/go-quai/ethdb"
	"github.com/dominant-strategies/go-quai/ethdb/memorydb"
	"github.com/dominant-strategies/go-quai/log"
	"github.com/dominant-strategies/go-quai/params"
	"github.com/dominant-strategies/go-quai/verifshim/vx"
)

func bigOne() *big.Int { return big.NewInt(1) }

type c15OpCall struct {
	Op   string   `json:"op"`
	Args []string `json:"args"` // stack operands, top of stack first, hex
}

type c15Prog struct {
	Ops []c15OpCall `json:"ops"`
	Gas uint64      `json:"gas"`
}

func (p c15Prog) String() string {
	var s []string
	for _, o := range p.Ops {
		s = append(s, fmt.Sprintf("%s(%s)", o.Op, strings.Join(o.Args, ",")))
	}
	return fmt.Sprintf("%s gas=%d", strings.Join(s, ";"), p.Gas)
}

// operand roles
const (
	rOff   = iota // memory offset (menu)
	rSize         // memory size (menu)
	rZero         // benign constant 0
	rAddr         // in-zone empty account
	rXAddr        // out-of-zone address (ETX target)
	rOne          // constant 1
	rGasL         // 21000
	rData         // non-memory offset (calldata/code/returndata): small menu
)

type c15OpSpec struct {
	Name  string
	Code  vm.OpCode
	Roles []int
	Halts bool
}

var c15OpSpecs = []c15OpSpec{
	{"KECCAK256", vm.SHA3, []int{rOff, rSize}, false},
	{"CALLDATACOPY", vm.CALLDATACOPY, []int{rOff, rData, rSize}, false},
	{"CODECOPY", vm.CODECOPY, []int{rOff, rData, rSize}, false},
	{"EXTCODECOPY", vm.EXTCODECOPY, []int{rAddr, rOff, rData, rSize}, false},
	{"RETURNDATACOPY", vm.RETURNDATACOPY, []int{rOff, rData, rSize}, false},
	{"MLOAD", vm.MLOAD, []int{rOff}, false},
	{"MSTORE", vm.MSTORE, []int{rOff, rOne}, false},
	{"MSTORE8", vm.MSTORE8, []int{rOff, rOne}, false},
	{"MCOPY", vm.MCOPY, []int{rOff, rOff, rSize}, false},
	{"LOG0", vm.LOG0, []int{rOff, rSize}, false},
	{"LOG1", vm.LOG1, []int{rOff, rSize, rOne}, false},
	{"LOG2", vm.LOG2, []int{rOff, rSize, rOne, rOne}, false},
	{"LOG3", vm.LOG3, []int{rOff, rSize, rOne, rOne, rOne}, false},
	{"LOG4", vm.LOG4, []int{rOff, rSize, rOne, rOne, rOne, rOne}, false},
	{"CREATE", vm.CREATE, []int{rZero, rOff, rSize}, false},
	{"CREATE2", vm.CREATE2, []int{rZero, rOff, rSize, rOne}, false},
	{"CALL", vm.CALL, []int{rZero, rAddr, rZero, rOff, rSize, rOff, rSize}, false},
	{"CALLCODE", vm.CALLCODE, []int{rZero, rAddr, rZero, rOff, rSize, rOff, rSize}, false},
	{"DELEGATECALL", vm.DELEGATECALL, []int{rZero, rAddr, rOff, rSize, rOff, rSize}, false},
	{"STATICCALL", vm.STATICCALL, []int{rZero, rAddr, rOff, rSize, rOff, rSize}, false},
	{"RETURN", vm.RETURN, []int{rOff, rSize}, true},
	{"REVERT", vm.REVERT, []int{rOff, rSize}, true},
	{"ETX", vm.ETX, []int{rZero, rXAddr, rOne, rGasL, rOne, rOne, rOff, rSize, rOff, rSize}, false},
}

func c15OpSpecByName(n string) *c15OpSpec {
	for i := range c15OpSpecs {
		if c15OpSpecs[i].Name == n {
			return &c15OpSpecs[i]
		}
	}
	return nil
}

func c15Pow2(n uint) *uint256.Int { return new(uint256.Int).Lsh(uint256.NewInt(1), n) }

var c15MenuFull = func() []*uint256.Int {
	m := []*uint256.Int{uint256.NewInt(0), uint256.NewInt(1), uint256.NewInt(31), uint256.NewInt(32), uint256.NewInt(33), c15Pow2(16), c15Pow2(24), c15Pow2(31), c15Pow2(32),
		new(uint256.Int).SetUint64(^uint64(0)), c15Pow2(64), new(uint256.Int).SetAllOne()}
	return m
}()

// reduced menu (quick tier for 4-operand opcodes, and pairs)
var c15MenuMid = []*uint256.Int{uint256.NewInt(0), uint256.NewInt(1), uint256.NewInt(32), c15Pow2(16), c15Pow2(32), new(uint256.Int).SetAllOne()}
var c15MenuPairOff = []*uint256.Int{uint256.NewInt(0), c15Pow2(16)}
var c15MenuPairSize = []*uint256.Int{uint256.NewInt(0), uint256.NewInt(32), c15Pow2(16)}
var c15MenuData = []*uint256.Int{uint256.NewInt(0), new(uint256.Int).SetAllOne()}

var c15AddrCallee = common.HexToAddress("0x0000000000000000000000000000000000002000", c15Loc)
var c15AddrCold = common.HexToAddress("0x0000000000000000000000000000000000002001", c15Loc) // not in the access list
var c15AddrContract = common.HexToAddress("0x0000000000000000000000000000000000001000", c15Loc)
var c15AddrCaller = common.HexToAddress("0x0000000000000000000000000000000000003000", c15Loc)
var c15AddrForeign = common.HexToAddress("0x0100000000000000000000000000000000004000", common.Location{0, 1})

func c15RoleConst(r int) *uint256.Int {
	switch r {
	case rAddr:
		return new(uint256.Int).SetBytes(c15AddrCallee.Bytes())
	case rXAddr:
		return new(uint256.Int).SetBytes(c15AddrForeign.Bytes())
	case rOne:
		return uint256.NewInt(1)
	case rGasL:
		return uint256.NewInt(21000)
	}
	return uint256.NewInt(0)
}

// c15EnumOp enumerates all operand tuples of one opcode over the given menus.
func c15EnumOp(s *c15OpSpec, offM, sizeM, dataM []*uint256.Int, f func(c15OpCall) bool) {
	args := make([]*uint256.Int, len(s.Roles))
	var rec func(i int) bool
	rec = func(i int) bool {
		if i == len(s.Roles) {
			oc := c15OpCall{Op: s.Name}
			for _, a := range args {
				oc.Args = append(oc.Args, a.Hex())
			}
			return f(oc)
		}
		var menu []*uint256.Int
		switch s.Roles[i] {
		case rOff:
			menu = offM
		case rSize:
			menu = sizeM
		case rData:
			menu = dataM
		case rAddr:
			menu = []*uint256.Int{c15RoleConst(rAddr), new(uint256.Int).SetBytes(c15AddrCold.Bytes())}
		default:
			menu = []*uint256.Int{c15RoleConst(s.Roles[i])}
		}
		for _, v := range menu {
			args[i] = v
			if !rec(i + 1) {
				return false
			}
		}
		return true
	}
	rec(0)
}

// c15Assemble: PUSH operands, opcode ... STOP. A single non-halting opcode is emitted twice with the
// same operands: the second execution cannot expand memory, so the difference of the two charges
// isolates what the first one paid for its expansion.
func c15Assemble(p c15Prog) ([]byte, error) {
	var code []byte
	ops := p.Ops
	if len(ops) == 1 {
		if s := c15OpSpecByName(ops[0].Op); s != nil && !s.Halts {
			ops = []c15OpCall{ops[0], ops[0]}
		}
	}
	for _, oc := range ops {
		s := c15OpSpecByName(oc.Op)
		if s == nil {
			return nil, fmt.Errorf("unknown op %s", oc.Op)
		}
		for i := len(oc.Args) - 1; i >= 0; i-- {
			v, err := uint256.FromHex(oc.Args[i])
			if err != nil {
				return nil, err
			}
			b := v.Bytes32()
			code = append(code, byte(vm.PUSH32))
			code = append(code, b[:]...)
		}
		code = append(code, byte(s.Code))
	}
	code = append(code, byte(vm.STOP))
	return code, nil
}

func c15Risky(p c15Prog) bool {
	lim := c15Pow2(25)
	for _, oc := range p.Ops {
		s := c15OpSpecByName(oc.Op)
		for i, a := range oc.Args {
			if s.Roles[i] != rOff && s.Roles[i] != rSize {
				continue
			}
			v, _ := uint256.FromHex(a)
			if v.Cmp(lim) >= 0 {
				return true
			}
		}
	}
	return false
}

// ---- tracer ----

type c15Step struct {
	depth int
	op    vm.OpCode
	gas   uint64
	mem   int
	err   bool
	fault bool // CaptureFault: the already captured step failed while executing
}

type c15Tracer struct{ steps []c15Step }

func (t *c15Tracer) CaptureStart(env *vm.EVM, from common.Address, to common.Address, create bool, input []byte, gas uint64, value *big.Int) {
}
func (t *c15Tracer) CaptureState(env *vm.EVM, pc uint64, op vm.OpCode, gas, cost uint64, scope *vm.ScopeContext, rData []byte, depth int, err error, loc common.Location) {
	t.steps = append(t.steps, c15Step{depth, op, gas, scope.Memory.Len(), err != nil, false})
}
func (t *c15Tracer) CaptureFault(env *vm.EVM, pc uint64, op vm.OpCode, gas, cost uint64, scope *vm.ScopeContext, depth int, err error) {
	t.steps = append(t.steps, c15Step{depth, op, gas, scope.Memory.Len(), true, true})
}
func (t *c15Tracer) CaptureEnd(output []byte, gasUsed uint64, d time.Duration, err error) {}

// memcost is the memory-expansion cost function of the protocol (params.MemoryGas, QuadCoeffDiv).
func c15MemCost(bytes uint64) uint64 {
	w := (bytes + 31) / 32
	return w*params.MemoryGas + w*w/params.QuadCoeffDiv
}

// c15MaxPurchasable: the largest memory size (bytes) whose expansion cost is <= gas.
func c15MaxPurchasable(gas uint64) uint64 {
	lo, hi := uint64(0), uint64(1)<<26 // words
	for lo < hi {
		mid := (lo + hi + 1) / 2
		if mid*params.MemoryGas+mid*mid/params.QuadCoeffDiv <= gas {
			lo = mid
		} else {
			hi = mid - 1
		}
	}
	return lo * 32
}

// ---- execution ----

type c15VM struct {
	sdb   *state.StateDB
	cfg   *params.ChainConfig
	batch ethdb.Batch
}

func c15NewVM() (*c15VM, error) {
	lg := log.Global
	sdb, err := state.New(common.Hash{}, common.Hash{}, new(big.Int), state.NewDatabase(rawdb.NewMemoryDatabase(lg)), state.NewDatabase(rawdb.NewMemoryDatabase(lg)), nil, c15Loc, lg)
	if err != nil {
		return nil, err
	}
	cc := *params.TestChainConfig
	cc.Location = c15Loc
	for _, a := range []common.Address{c15AddrContract, c15AddrCaller} {
		ia, err := a.InternalAndQuaiAddress()
		if err != nil {
			return nil, err
		}
		sdb.CreateAccount(ia)
		sdb.AddBalance(ia, new(big.Int).Exp(big.NewInt(10), big.NewInt(20), nil))
	}
	for _, a := range []common.Address{c15AddrContract, c15AddrCaller, c15AddrCallee} {
		sdb.AddAddressToAccessList(a.Bytes20())
	}
	return &c15VM{sdb: sdb, cfg: &cc, batch: memorydb.New(lg).NewBatch()}, nil
}

type c15InterpObs struct {
	class string
	key   string
	desc  string
}

func (m *c15VM) run(p c15Prog) c15InterpObs {
	code, err := c15Assemble(p)
	if err != nil {
		return c15InterpObs{class: "harness", key: "harness:" + err.Error()}
	}
	ia, _ := c15AddrContract.InternalAndQuaiAddress()
	snap := m.sdb.Snapshot()
	defer m.sdb.RevertToSnapshot(snap)
	m.sdb.SetCode(ia, code)
	tr := &c15Tracer{}
	bn := new(big.Int).SetUint64(params.MaxCodeSizeForkHeight + 10)
	bctx := vm.BlockContext{
		CanTransfer: core.CanTransfer, Transfer: core.Transfer,
		GetHash:            func(uint64) common.Hash { return common.Hash{} },
		CheckIfEtxEligible: func(common.Hash, common.Location) bool { return true },
		PrimaryCoinbase:    c15AddrCaller, GasLimit: 50000000, BlockNumber: bn, Time: big.NewInt(1700000000), Difficulty: big.NewInt(1000),
		BaseFee: big.NewInt(1), QuaiStateSize: big.NewInt(0), PrimeTerminusNumber: 20000000,
	}
	evm := vm.NewEVM(bctx, vm.TxContext{Origin: c15AddrCaller, GasPrice: big.NewInt(1), Hash: c15H(0xee)}, m.sdb, m.cfg, vm.Config{Debug: true, Tracer: tr}, m.batch)
	var left uint64
	var cerr error
	perr := vx.Guard(func() {
		_, left, _, cerr = evm.Call(vm.AccountRef(c15AddrCaller), c15AddrContract, []byte{0xaa, 0xbb}, p.Gas, new(big.Int))
	})
	lastOp := "none"
	if len(tr.steps) > 0 {
		lastOp = tr.steps[len(tr.steps)-1].op.String()
	}
	if perr != "" {
		return c15InterpObs{class: "panic", key: fmt.Sprintf("interp:%s:panic@%s", lastOp, c15GuardSite(perr)), desc: fmt.Sprintf("interpreter panicked executing %s: %s", p, c15Trunc(perr, 1500))}
	}
	if os.Getenv("C15_TRACE") != "" {
		for i, s := range tr.steps {
			fmt.Fprintf(os.Stderr, "step %d depth=%d op=%s gas=%d mem=%d err=%v\n", i, s.depth, s.op, s.gas, s.mem, s.err)
		}
		fmt.Fprintf(os.Stderr, "left=%d err=%v\n", left, cerr)
	}
	// ---- oracle over the trace ----
	type fr struct {
		have    bool
		gas     uint64
		mem     int
		prevMem int
		op      vm.OpCode
		err     bool
	}
	frames := map[int]*fr{}
	peak, grew := 0, false
	maxPurch := c15MaxPurchasable(p.Gas)
	check := func(f *fr, gasAfter uint64) *c15InterpObs {
		if f.err || f.mem <= f.prevMem {
			return nil
		}
		grew = true
		need := c15MemCost(uint64(f.mem)) - c15MemCost(uint64(f.prevMem))
		var charged uint64
		if f.gas >= gasAfter {
			charged = f.gas - gasAfter
		}
		if charged < need {
			return &c15InterpObs{class: "uncharged", key: fmt.Sprintf("interp:%s:uncharged-memory-growth", f.op),
				desc: fmt.Sprintf("%s grew the frame memory from %d to %d bytes (expansion cost %d gas) but the step consumed only %d gas (gas before %d, after %d); program %s", f.op, f.prevMem, f.mem, need, charged, f.gas, gasAfter, p)}
		}
		return nil
	}
	for _, s := range tr.steps {
		if s.fault {
			// the step captured just before failed in execute(): its frame ends here. What the
			// frame is left with is only known for the outermost frame (checked after the loop).
			for d, f := range frames {
				if d > s.depth && f.have {
					f.have = false
				}
			}
			if s.depth > 1 {
				if f := frames[s.depth]; f != nil {
					f.have = false
				}
			}
			continue
		}
		// frames deeper than this step have ended
		for d, f := range frames {
			if d > s.depth && f.have {
				f.have = false
			}
		}
		f := frames[s.depth]
		if f == nil {
			f = &fr{}
			frames[s.depth] = f
		}
		prev := 0
		if f.have {
			if v := check(f, s.gas); v != nil {
				return *v
			}
			prev = f.mem
		}
		*f = fr{have: true, gas: s.gas, mem: s.mem, prevMem: prev, op: s.op, err: s.err}
		sum := 0
		for _, g := range frames {
			if g.have {
				sum += g.mem
			}
		}
		if s.mem > peak {
			peak = s.mem
		}
		if uint64(s.mem) > maxPurch || uint64(sum) > 32*(p.Gas/3)+32 {
			return c15InterpObs{class: "peak", key: fmt.Sprintf("interp:%s:peak-exceeds-gas", s.op),
				desc: fmt.Sprintf("frame memory %d bytes (live frames total %d) at %s exceeds what %d gas can buy (%d bytes); program %s", s.mem, sum, s.op, p.Gas, maxPurch, p)}
		}
	}
	// differential check for single-opcode programs (see c15Assemble)
	if len(p.Ops) == 1 {
		if spec := c15OpSpecByName(p.Ops[0].Op); spec != nil && !spec.Halts {
			var d1 []c15Step
			for _, s := range tr.steps {
				if s.depth == 1 && !s.fault {
					d1 = append(d1, s)
				}
			}
			var at []int
			for i, s := range d1 {
				if s.op == spec.Code {
					at = append(at, i)
				}
			}
			if len(at) == 2 && at[1]+1 < len(d1) && !d1[at[0]].err && !d1[at[1]].err {
				prevMem := 0
				if at[0] > 0 {
					prevMem = d1[at[0]-1].mem
				}
				m1, m2 := d1[at[0]].mem, d1[at[1]].mem
				c1 := d1[at[0]].gas - d1[at[0]+1].gas
				c2 := d1[at[1]].gas - d1[at[1]+1].gas
				if m1 > prevMem && m2 == m1 {
					need := c15MemCost(uint64(m1)) - c15MemCost(uint64(prevMem))
					if c1 < c2+need {
						return c15InterpObs{class: "uncharged", key: fmt.Sprintf("interp:%s:uncharged-memory-growth", spec.Code),
							desc: fmt.Sprintf("%s grew the frame memory from %d to %d bytes (expansion cost %d gas); that execution consumed %d gas, the identical execution right after it (no growth) consumed %d gas: only %d gas were paid for the expansion; program %s (opcode emitted twice)", spec.Code, prevMem, m1, need, c1, c2, int64(c1)-int64(c2), p)}
					}
				}
			}
		}
	}
	if f := frames[1]; f != nil && f.have {
		after := left
		if cerr != nil && cerr != vm.ErrExecutionReverted {
			after = 0
		}
		if v := check(f, after); v != nil {
			return *v
		}
	}
	res := "ok"
	if cerr != nil {
		res = c15ErrClass(cerr)
	}
	return c15InterpObs{class: fmt.Sprintf("%s grew=%v", res, grew)}
}

// ---- enumeration ----

func c15InterpCases(thorough bool, f func(p c15Prog) bool) {
	gasQuick := []uint64{100, 30000, 30000000}
	gasFull := []uint64{3, 100, 30000, 1000000, 30000000}
	gasM := gasQuick
	if thorough {
		gasM = gasFull
	}
	// singles
	for i := range c15OpSpecs {
		s := &c15OpSpecs[i]
		nMem := 0
		for _, r := range s.Roles {
			if r == rOff || r == rSize {
				nMem++
			}
		}
		offM, sizeM := c15MenuFull, c15MenuFull
		if nMem >= 4 && !thorough {
			offM, sizeM = c15MenuMid, c15MenuMid
		}
		ok := true
		c15EnumOp(s, offM, sizeM, c15MenuData, func(oc c15OpCall) bool {
			for _, g := range gasM {
				if !f(c15Prog{Ops: []c15OpCall{oc}, Gas: g}) {
					ok = false
					return false
				}
			}
			return true
		})
		if !ok {
			return
		}
	}
	// warm memory + operands at the 64-bit edge
	stop := false
	c15EdgeProgs([]uint64{gasM[len(gasM)-1]}, func(p c15Prog) bool {
		if !f(p) {
			stop = true
			return false
		}
		return true
	})
	if stop {
		return
	}
	// pairs: A;B over the pair menus (halting ops only as second)
	gasP := []uint64{30000000}
	if thorough {
		gasP = []uint64{30000, 30000000}
	}
	for i := range c15OpSpecs {
		a := &c15OpSpecs[i]
		if a.Halts {
			continue
		}
		var firsts []c15OpCall
		c15EnumOp(a, c15MenuPairOff, c15MenuPairSize, c15MenuData[:1], func(oc c15OpCall) bool { firsts = append(firsts, oc); return true })
		for j := range c15OpSpecs {
			b := &c15OpSpecs[j]
			var seconds []c15OpCall
			c15EnumOp(b, c15MenuPairOff, c15MenuPairSize, c15MenuData[:1], func(oc c15OpCall) bool { seconds = append(seconds, oc); return true })
			if !thorough {
				// quick: the 4-memory-operand opcodes contribute their single-range tuples only
				firsts2, seconds2 := c15Thin(a, firsts), c15Thin(b, seconds)
				for _, x := range firsts2 {
					for _, y := range seconds2 {
						for _, g := range gasP {
							if !f(c15Prog{Ops: []c15OpCall{x, y}, Gas: g}) {
								return
							}
						}
					}
				}
				continue
			}
			for _, x := range firsts {
				for _, y := range seconds {
					for _, g := range gasP {
						if !f(c15Prog{Ops: []c15OpCall{x, y}, Gas: g}) {
							return
						}
					}
				}
			}
		}
	}
}

// c15MenuEdge: values around the 64-bit wrap of the interpreter's word rounding (offset+size is
// rounded up to a multiple of 32 before it is priced and allocated), with small companions.
var c15MenuEdge = func() []*uint256.Int {
	max := new(uint256.Int).SetUint64(^uint64(0))
	m := []*uint256.Int{uint256.NewInt(0), uint256.NewInt(1), uint256.NewInt(32)}
	for _, d := range []uint64{33, 32, 31, 2, 1, 0} {
		m = append(m, new(uint256.Int).Sub(max, uint256.NewInt(d)))
	}
	return m
}()

// c15EdgeProgs: MSTORE(0,1) (so that memory is not empty) followed by one opcode whose operand tuple
// contains at least one value within 33 of 2^64 (the other operands from {0,1,32}; opcodes with two
// memory ranges: second range (0,0) or equal to the first).
func c15EdgeProgs(gasM []uint64, f func(c15Prog) bool) {
	var warm c15OpCall
	c15EnumOp(c15OpSpecByName("MSTORE"), []*uint256.Int{uint256.NewInt(0)}, nil, nil, func(oc c15OpCall) bool { warm = oc; return false })
	edge := new(uint256.Int).SetUint64(^uint64(0) - 33)
	for i := range c15OpSpecs {
		b := &c15OpSpecs[i]
		var calls []c15OpCall
		c15EnumOp(b, c15MenuEdge, c15MenuEdge, c15MenuData[:1], func(oc c15OpCall) bool {
			for k, a := range oc.Args {
				if b.Roles[k] != rOff && b.Roles[k] != rSize {
					continue
				}
				if v, _ := uint256.FromHex(a); v.Cmp(edge) >= 0 {
					calls = append(calls, oc)
					break
				}
			}
			return true
		})
		for _, oc := range c15Thin(b, calls) {
			for _, g := range gasM {
				if !f(c15Prog{Ops: []c15OpCall{warm, oc}, Gas: g}) {
					return
				}
			}
		}
	}
}

// c15Thin keeps, for opcodes with two memory ranges, the tuples whose second range is (0,0) or
// equal to the first (quick tier only).
func c15Thin(s *c15OpSpec, in []c15OpCall) []c15OpCall {
	var idx []int
	for i, r := range s.Roles {
		if r == rOff || r == rSize {
			idx = append(idx, i)
		}
	}
	if len(idx) < 4 {
		return in
	}
	var out []c15OpCall
	for _, oc := range in {
		a0, a1, b0, b1 := oc.Args[idx[0]], oc.Args[idx[1]], oc.Args[idx[2]], oc.Args[idx[3]]
		if (b0 == "0x0" && b1 == "0x0") || (a0 == b0 && a1 == b1) {
			out = append(out, oc)
		}
	}
	return out
}

// c15RiskyJob: the out-of-process cases of this worker, started at the beginning of the run so
// that the child process works while the decoder parts are being explored.
type c15RiskyJob struct {
	progs []c15Prog
	res   []c15ChildRes
	err   error
	done  chan struct{}
	took  time.Duration
}

// c15StartRisky selects this worker's share of the huge-operand cases (every 4th worker takes
// part: each needs a process) and starts executing them in the background.
func c15StartRisky(c *vx.Ctx, dl time.Time) *c15RiskyJob {
	if c.NShards > 1 && c.Shard%4 != 0 {
		return nil
	}
	nW := int64((c.NShards + 3) / 4)
	me := int64(c.Shard / 4)
	job := &c15RiskyJob{done: make(chan struct{})}
	var ridx int64
	c15InterpCases(c.Thorough(), func(pr c15Prog) bool {
		if !c15Risky(pr) {
			return true
		}
		if !c.Thorough() && c15UsesCold(pr) {
			return true // quick: the cold-callee variant only with in-process operands
		}
		ridx++
		if c.NShards > 1 && ridx%nW != me {
			return true
		}
		job.progs = append(job.progs, pr)
		return true
	})
	go func() {
		t := time.Now()
		job.res, job.err = c15RunChild(job.progs, dl)
		job.took = time.Since(t)
		close(job.done)
	}()
	return job
}

func c15PartInterp(x *c15Ctx, dl time.Time) {
	p := x.c.Part("interp")
	p.Bound("opcodes", len(c15OpSpecs))
	p.Bound("operand_menu", "0,1,31,32,33,2^16,2^24,2^31,2^32,2^64-1,2^64,2^256-1 (quick: 0,1,32,2^16,2^32,2^256-1 for opcodes with two memory ranges)")
	p.Bound("pair_menu", "offset {0,2^16} x size {0,32,2^16}")
	p.Bound("edge_menu", "MSTORE(0,1); op with operands from {0,1,32,2^64-34..2^64-31,2^64-3,2^64-2,2^64-1}, at least one within 33 of 2^64")
	p.Bound("gas_menu", "quick 100, 30k, 30M; thorough 3, 100, 30k, 1M, 30M")
	m, err := c15NewVM()
	if err != nil {
		x.c.HarnessError("interp: " + err.Error())
		return
	}
	var total int64
	stopped := false
	c15InterpCases(x.c.Thorough(), func(pr c15Prog) bool {
		total++
		if c15Risky(pr) {
			return true // executed out of process, see c15StartRisky
		}
		if !x.mine() {
			return true
		}
		if total%1024 == 0 && x.expired(p, dl, "in-process cases") {
			stopped = true
			return false
		}
		o := m.run(pr)
		p.Transitions++
		p.Traces++
		p.Outcome(c15ProgOps(pr) + " -> " + o.class)
		if len(pr.Ops) == 2 {
			p.MaxDepth = 2
		} else if p.MaxDepth < 1 {
			p.MaxDepth = 1
		}
		if o.key != "" {
			pc := pr
			x.report("interp", c15Obs{class: o.class, key: o.key, desc: o.desc}, c15Case{Kind: "interp", Entry: "evm.Call", Mutation: pr.String(), Interp: &pc}, func() c15Obs {
				oo := m.run(pc)
				return c15Obs{class: oo.class, key: oo.key, desc: oo.desc}
			})
		} else if total%20011 == 0 {
			p.Sample(pr.String() + " => " + o.class)
		}
		return true
	})
	if x.c.Shard == 0 {
		p.States = total
	}
	if x.risky != nil {
		wait := time.Until(dl)
		if wait < 5*time.Second {
			wait = 5 * time.Second
		}
		select {
		case <-x.risky.done:
			c15FoldRisky(x, p, x.risky)
		case <-time.After(wait):
			p.Incomplete("deadline: out-of-process cases still running")
		}
	}
	_ = stopped
}

func c15FoldRisky(x *c15Ctx, p *vx.Part, job *c15RiskyJob) {
	p.Note("worker %d: %d huge-operand cases out of process in %.1fs", x.c.Shard, len(job.progs), job.took.Seconds())
	risky, res, err := job.progs, job.res, job.err
	for i, r := range res {
		if r.I < 0 {
			continue
		}
		p.Transitions++
		p.Traces++
		p.Outcome(c15ProgOps(risky[i]) + " -> " + r.Class)
		if r.Key != "" && !x.reported[r.Key] {
			x.reported[r.Key] = true
			pc := risky[i]
			// confirm: the same single case again, alone
			rr, e2 := c15RunChild([]c15Prog{pc}, time.Now().Add(2*time.Minute))
			if e2 != nil || rr[0].Key != r.Key {
				x.c.HarnessError("interp out-of-process failure not reproducible: " + r.Key + " " + pc.String())
				continue
			}
			x.c.Violate("interp", r.Key, r.Desc, c15Case{Kind: "interp", Entry: "evm.Call(out-of-process)", Mutation: pc.String(), Interp: &pc})
		}
	}
	if err != nil {
		if err.Error() == "deadline" {
			p.Incomplete("deadline during out-of-process cases")
		} else {
			x.c.HarnessError("interp child: " + err.Error())
		}
	}
}

func c15UsesCold(pr c15Prog) bool {
	cold := new(uint256.Int).SetBytes(c15AddrCold.Bytes()).Hex()
	for _, oc := range pr.Ops {
		for _, a := range oc.Args {
			if a == cold {
				return true
			}
		}
	}
	return false
}

func c15ProgOps(pr c15Prog) string {
	if len(pr.Ops) > 1 {
		return "pair(*;" + pr.Ops[1].Op + ")"
	}
	return pr.Ops[0].Op
}

// ---- out-of-process execution of the cases with huge operands ----

type c15ChildRes struct {
	I     int    `json:"i"`
	Class string `json:"class"`
	Key   string `json:"key,omitempty"`
	Desc  string `json:"desc,omitempty"`
}

const c15ChildLimit = 4 << 30

// c15InterpChild: runs cases [from..] of the case file, journaling "S i" before and a JSON result
// line after each case.
func c15InterpChild(c *vx.Ctx) {
	c15SetRlimit(c15ChildLimit)
	spec := os.Getenv("C15_INTERP_CHILD") // casefile:journal:from
	parts := strings.Split(spec, ":")
	if len(parts) != 3 {
		return
	}
	raw, err := os.ReadFile(parts[0])
	if err != nil {
		return
	}
	var progs []c15Prog
	if json.Unmarshal(raw, &progs) != nil {
		return
	}
	var from int
	fmt.Sscanf(parts[2], "%d", &from)
	j, err := os.OpenFile(parts[1], os.O_APPEND|os.O_WRONLY|os.O_CREATE, 0o644)
	if err != nil {
		return
	}
	defer j.Close()
	m, err := c15NewVM()
	if err != nil {
		fmt.Fprintf(j, "E %v\n", err)
		return
	}
	dead := map[string]bool{}
	for _, d := range strings.Split(os.Getenv("C15_DEAD_OPS"), ",") {
		if d != "" {
			dead[d] = true
		}
	}
	for i := from; i < len(progs); i++ {
		if dead[progs[i].Ops[len(progs[i].Ops)-1].Op] || dead[progs[i].Ops[0].Op] {
			b, _ := json.Marshal(c15ChildRes{I: i, Class: "skipped-after-oom-of-same-opcode"})
			fmt.Fprintf(j, "R %s\n", b)
			continue
		}
		fmt.Fprintf(j, "S %d\n", i)
		o := m.run(progs[i])
		b, _ := json.Marshal(c15ChildRes{I: i, Class: o.class, Key: o.key, Desc: o.desc})
		fmt.Fprintf(j, "R %s\n", b)
	}
	fmt.Fprintf(j, "D\n")
}

// c15RunChild executes progs in rlimited child processes; returns one result per prog.
func c15RunChild(progs []c15Prog, dl time.Time) ([]c15ChildRes, error) {
	dir, err := os.MkdirTemp("/dev/shm", "vq-c15-")
	if err != nil {
		dir, err = os.MkdirTemp("", "vq-c15-")
		if err != nil {
			return nil, err
		}
	}
	defer os.RemoveAll(dir)
	raw, _ := json.Marshal(progs)
	cf, jf := dir+"/cases.json", dir+"/journal"
	if err := os.WriteFile(cf, raw, 0o644); err != nil {
		return nil, err
	}
	res := make([]c15ChildRes, len(progs))
	for i := range res {
		res[i].I = -1
	}
	from := 0
	var deadOps []string
	for from < len(progs) {
		if time.Now().After(dl) {
			return res, fmt.Errorf("deadline")
		}
		os.Remove(jf)
		lim := time.Until(dl) + 45*time.Second
		if lim < 2*time.Minute {
			lim = 2 * time.Minute
		}
		cctx, cancel := context.WithTimeout(context.Background(), lim)
		cmd := exec.CommandContext(cctx, os.Args[0], "C15", "--tier", "quick", "--budget", "20m")
		cmd.WaitDelay = 5 * time.Second
		cmd.Env = append(os.Environ(), fmt.Sprintf("C15_INTERP_CHILD=%s:%s:%d", cf, jf, from), "VX_SHARD=0/1", "VX_OUT="+dir+"/ignored.json", "GOMAXPROCS=2", "C15_DEAD_OPS="+strings.Join(deadOps, ","))
		out, _ := cmd.CombinedOutput()
		timedOut := cctx.Err() != nil
		cancel()
		if timedOut {
			return res, fmt.Errorf("deadline")
		}
		f, err := os.Open(jf)
		if err != nil {
			return res, fmt.Errorf("child produced no journal: %s", c15Trunc(string(out), 600))
		}
		started, done := -1, false
		sc := bufio.NewScanner(f)
		sc.Buffer(make([]byte, 1<<20), 1<<24)
		for sc.Scan() {
			l := sc.Text()
			switch {
			case strings.HasPrefix(l, "S "):
				fmt.Sscanf(l[2:], "%d", &started)
			case strings.HasPrefix(l, "R "):
				var r c15ChildRes
				if json.Unmarshal([]byte(l[2:]), &r) == nil && r.I >= 0 && r.I < len(res) {
					res[r.I] = r
				}
			case l == "D":
				done = true
			case strings.HasPrefix(l, "E "):
				f.Close()
				return res, fmt.Errorf("child: %s", l)
			}
		}
		f.Close()
		if done {
			break
		}
		if started < from {
			return res, fmt.Errorf("child died before starting case %d: %s", from, c15Trunc(string(out), 800))
		}
		if res[started].I == -1 {
			// the process died inside case `started`
			tail := string(out)
			why := "process died"
			if strings.Contains(tail, "out of memory") || strings.Contains(tail, "cannot allocate memory") {
				why = "fatal error: out of memory under RLIMIT_AS=4GiB"
			}
			pr := progs[started]
			// once an opcode has been seen to allocate beyond the gas, its remaining huge-operand
			// cases are not executed (each would cost a process; they report the same key)
			deadOps = append(deadOps, pr.Ops[len(pr.Ops)-1].Op)
			res[started] = c15ChildRes{I: started, Class: "oom", Key: fmt.Sprintf("interp:%s:alloc-beyond-gas", pr.Ops[len(pr.Ops)-1].Op),
				Desc: fmt.Sprintf("executing %s killed the interpreter process (%s): the memory resize was attempted although %d gas can buy at most %d bytes\n%s", pr, why, pr.Gas, c15MaxPurchasable(pr.Gas), c15Trunc(c15FirstLines(tail, 6), 600))}
		}
		from = started + 1
	}
	return res, nil
}

func c15FirstLines(s string, n int) string {
	ls := strings.Split(s, "\n")
	if len(ls) > n {
		ls = ls[:n]
	}
	return strings.Join(ls, "\n")
}

func c15ReplayInterp(cs c15Case, key string) string {
	if cs.Interp == nil {
		return "bad replay: no program"
	}
	if c15Risky(*cs.Interp) {
		rr, err := c15RunChild([]c15Prog{*cs.Interp}, time.Now().Add(3*time.Minute))
		if err != nil {
			return "harness: " + err.Error()
		}
		if rr[0].Key == key {
			return rr[0].Desc
		}
		if rr[0].Key != "" {
			return "different failure now: " + rr[0].Key + "\n" + rr[0].Desc
		}
		return ""
	}
	m, err := c15NewVM()
	if err != nil {
		return "harness: " + err.Error()
	}
	o := m.run(*cs.Interp)
	if o.key == key {
		return o.desc
	}
	if o.key != "" {
		return "different failure now: " + o.key + "\n" + o.desc
	}
	return ""
}
