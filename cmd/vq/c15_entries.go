package main

// C15 entry points: the production decode + pre-validation functions reachable with bytes that a
// peer, an RPC client or the disk controls.

import (
	"bytes"
	"context"
	"encoding/json"
	"fmt"
	"math/big"

	pubsub "github.com/libp2p/go-libp2p-pubsub"
	"google.golang.org/protobuf/proto"

	"github.com/dominant-strategies/go-quai/common"
	"github.com/dominant-strategies/go-quai/common/hexutil"
	"github.com/dominant-strategies/go-quai/core"
	"github.com/dominant-strategies/go-quai/core/state"
	"github.com/dominant-strategies/go-quai/core/types"
	"github.com/dominant-strategies/go-quai/internal/quaiapi"
	"github.com/dominant-strategies/go-quai/p2p/node"
	"github.com/dominant-strategies/go-quai/p2p/node/pubsubManager"
	"github.com/dominant-strategies/go-quai/p2p/pb"
	"github.com/dominant-strategies/go-quai/p2p/protocol"
	"github.com/dominant-strategies/go-quai/quai"
	"github.com/dominant-strategies/go-quai/quai/filters"
	"github.com/dominant-strategies/go-quai/rlp"
	"github.com/dominant-strategies/go-quai/rpc"
	"github.com/dominant-strategies/go-quai/verifshim/vx"
)

type c15Env struct {
	node    *core.VerifC15Node
	be      quaiapi.Backend
	qbe     *quai.QuaiBackend
	gossip  *pubsubManager.VerifC15Gossip
	p2p     *node.P2PNode
	bcAPI   *quaiapi.PublicBlockChainQuaiAPI
	txAPI   *quaiapi.PublicTransactionPoolAPI
	wsAPI   *quaiapi.PublicWorkSharesAPI
	entries []*c15Entry
	byName  map[string]*c15Entry
	peerN   int
}

func (env *c15Env) entry(name string) *c15Entry { return env.byName[name] }

func (env *c15Env) add(e *c15Entry) {
	env.entries = append(env.entries, e)
	env.byName[e.Name] = e
}

func (env *c15Env) forKind(kind string) []*c15Entry {
	var out []*c15Entry
	for _, e := range env.entries {
		for _, k := range e.Kinds {
			if k == kind {
				out = append(out, e)
			}
		}
	}
	return out
}

func c15ValName(r pubsub.ValidationResult) string {
	switch r {
	case pubsub.ValidationAccept:
		return "accept"
	case pubsub.ValidationReject:
		return "reject"
	case pubsub.ValidationIgnore:
		return "ignore"
	}
	return fmt.Sprintf("result%d", int(r))
}

func c15NewEnv() (*c15Env, error) {
	c15InitTxPayloads()
	n, err := core.VerifC15NewNode(2)
	if err != nil {
		return nil, err
	}
	n.Logger.AddHook(c15LogHook)
	env := &c15Env{node: n, byName: map[string]*c15Entry{}}
	net := &quai.VerifC15NoNet{}
	env.be = quai.VerifC15APIBackend(n.Core, n.Logger, net)
	env.qbe = quai.VerifC15Consensus(env.be, c15Loc, net)
	env.gossip = pubsubManager.VerifC15NewGossip(env.qbe, n.Gen)
	env.p2p = node.VerifC15NewNode(env.qbe)
	env.bcAPI = quaiapi.NewPublicBlockChainQuaiAPI(env.be)
	env.txAPI = quaiapi.NewPublicTransactionPoolAPI(env.be, new(quaiapi.AddrLocker))
	env.wsAPI = quaiapi.NewPublicWorkSharesAPI(env.txAPI, env.be)
	env.register()
	c15RegisterTextEntries(env)
	return env, nil
}

const (
	c15WrapGossipWorker = "msgWorker recover() in p2p/node/pubsubManager/gossipsub.go Subscribe (worker is restarted)"
	c15WrapStream       = "handleMessage recover() in p2p/protocol/handler.go"
	c15WrapRPC          = "rpc callback recover() in rpc/service.go (client gets 'method handler crashed')"
)

func (env *c15Env) register() {
	ctx := context.Background()
	loc := c15Loc

	// ------------------------------------------------------------------ gossip: decode
	conv := func(name, kind string, datatype interface{}) {
		env.add(&c15Entry{Name: "pb.UnmarshalAndConvert[" + name + "]", Kinds: []string{kind}, Wrapped: c15WrapGossipWorker, Fn: func(in []byte) string {
			var data interface{}
			return c15ErrClass(pb.UnmarshalAndConvert(in, loc, &data, datatype))
		}})
	}
	conv("blockview", "blockview", &types.WorkObjectBlockView{})
	conv("headerview", "headerview", &types.WorkObjectHeaderView{})
	conv("shareview", "shareview", &types.WorkObjectShareView{})
	conv("hash", "hash", common.Hash{})
	conv("auxtemplate", "auxtemplate", &types.AuxTemplate{})

	// ------------------------------------------------------------------ gossip: topic validator (no recover in production)
	val := func(name, kind string, datatype interface{}, deliver bool) {
		topic, err := env.gossip.Topic(loc, datatype)
		if err != nil {
			panic(err)
		}
		env.add(&c15Entry{Name: "gossip.ValidatorFunc[" + name + "]", Kinds: []string{kind}, Fn: func(in []byte) string {
			return "validator:" + c15ValName(env.gossip.Validate(topic, in))
		}})
		if !deliver {
			return
		}
		env.add(&c15Entry{Name: "gossip.deliver[" + name + "]", Kinds: []string{kind}, Wrapped: c15WrapGossipWorker, Fn: func(in []byte) string {
			var res pubsub.ValidationResult
			if perr := vx.Guard(func() { res = env.gossip.Validate(topic, in) }); perr != "" {
				return "not-delivered:validator-panicked" // reported by the ValidatorFunc entry
			}
			if res != pubsub.ValidationAccept {
				return "not-delivered:" + c15ValName(res)
			}
			var data interface{}
			if err := pb.UnmarshalAndConvert(in, loc, &data, datatype); err != nil {
				return "deliver:decode-" + c15ErrClass(err)
			}
			env.p2p.VerifC15Deliver(topic, data, loc)
			cls := "delivered"
			if sv, ok := data.(types.WorkObjectShareView); ok {
				// what Core.startRemoteTxQueue does with the queued transactions
				errs := env.node.VerifC15PoolAddRemotes(sv.WorkObject.Transactions())
				env.node.VerifC15PurgeQueues()
				for _, e := range errs {
					if e != nil {
						return cls + "/pool-" + c15ErrClass(e)
					}
				}
				cls += fmt.Sprintf("/pool-ok%d", len(errs))
			}
			return cls
		}})
	}
	val("blocks", "blockview", &types.WorkObjectBlockView{}, false)
	val("headers", "headerview", &types.WorkObjectHeaderView{}, false)
	val("worksharev2", "shareview", &types.WorkObjectShareView{}, true)
	val("auxtemplate", "auxtemplate", &types.AuxTemplate{}, true)

	// transactions of a (not necessarily accepted) share reaching the pool: the pool is the
	// pre-validation step of transactions
	env.add(&c15Entry{Name: "txpool.AddRemotes[share txs]", Kinds: []string{"shareview"}, Wrapped: "Core.startRemoteTxQueue recover() in core/core.go", Fn: func(in []byte) string {
		var data interface{}
		if err := pb.UnmarshalAndConvert(in, loc, &data, &types.WorkObjectShareView{}); err != nil {
			return "decode-" + c15ErrClass(err)
		}
		sv := data.(types.WorkObjectShareView)
		errs := env.node.VerifC15PoolAddRemotes(sv.WorkObject.Transactions())
		for _, e := range errs {
			if e != nil {
				return "pool-" + c15ErrClass(e)
			}
		}
		return fmt.Sprintf("pool-ok%d", len(errs))
	}})

	// ------------------------------------------------------------------ request / response frames
	env.add(&c15Entry{Name: "pb.DecodeQuaiMessage+Request/Response", Kinds: []string{"quaimsg"}, Wrapped: c15WrapStream, Fn: func(in []byte) string {
		m, err := pb.DecodeQuaiMessage(in)
		if err != nil {
			return c15ErrClass(err)
		}
		switch {
		case m.GetRequest() != nil:
			_, _, _, _, err := pb.DecodeQuaiRequest(m.GetRequest())
			return "request:" + c15ErrClass(err)
		case m.GetResponse() != nil:
			_, _, err := pb.DecodeQuaiResponse(m.GetResponse())
			return "response:" + c15ErrClass(err)
		}
		return "neither"
	}})
	env.add(&c15Entry{Name: "p2p.handleMessage", Kinds: []string{"quaimsg"}, Wrapped: c15WrapStream, Fn: func(in []byte) string {
		env.peerN++
		if env.peerN%4096 == 0 {
			protocol.VerifC15ResetRateTrackers()
		}
		s := protocol.VerifC15NewStream(fmt.Sprintf("c15-peer-%d", env.peerN))
		protocol.VerifC15HandleMessage(in, s, env.p2p)
		return fmt.Sprintf("handled:frames=%d,closed=%v", s.Frames, s.Closed)
	}})

	// ------------------------------------------------------------------ plain ProtoDecode of every wire type
	views := []struct {
		n string
		v types.WorkObjectView
	}{{"BlockObject", types.BlockObject}, {"HeaderObject", types.HeaderObject}, {"PEtxObject", types.PEtxObject}, {"WorkShareObject", types.WorkShareObject}, {"WorkShareTxObject", types.WorkShareTxObject}, {"BlockObjects", types.BlockObjects}}
	for _, v := range views {
		v := v
		env.add(&c15Entry{Name: "types.WorkObject.ProtoDecode[" + v.n + "]", Kinds: []string{"wo-any", "wo-petx"}, Fn: func(in []byte) string {
			p := new(types.ProtoWorkObject)
			if err := proto.Unmarshal(in, p); err != nil {
				return c15ErrClass(err)
			}
			return c15ErrClass(new(types.WorkObject).ProtoDecode(p, loc, v.v))
		}})
	}
	env.add(&c15Entry{Name: "types.WorkObjectHeader.ProtoDecode", Kinds: []string{"woheader"}, Fn: func(in []byte) string {
		p := new(types.ProtoWorkObjectHeader)
		if err := proto.Unmarshal(in, p); err != nil {
			return c15ErrClass(err)
		}
		return c15ErrClass(new(types.WorkObjectHeader).ProtoDecode(p, loc))
	}})
	env.add(&c15Entry{Name: "types.Header.ProtoDecode", Kinds: []string{"header"}, Fn: func(in []byte) string {
		p := new(types.ProtoHeader)
		if err := proto.Unmarshal(in, p); err != nil {
			return c15ErrClass(err)
		}
		return c15ErrClass(new(types.Header).ProtoDecode(p, loc))
	}})
	env.add(&c15Entry{Name: "types.Transaction.ProtoDecode", Kinds: []string{"tx"}, Fn: func(in []byte) string {
		p := new(types.ProtoTransaction)
		if err := proto.Unmarshal(in, p); err != nil {
			return c15ErrClass(err)
		}
		return c15ErrClass(new(types.Transaction).ProtoDecode(p, loc))
	}})
	env.add(&c15Entry{Name: "types.AuxPow.ProtoDecode", Kinds: []string{"auxpow"}, Fn: func(in []byte) string {
		p := new(types.ProtoAuxPow)
		if err := proto.Unmarshal(in, p); err != nil {
			return c15ErrClass(err)
		}
		return c15ErrClass(new(types.AuxPow).ProtoDecode(p))
	}})
	// what every consumer of a decoded AuxPoW does next (validator, verifyHeader, RPC marshalling)
	env.add(&c15Entry{Name: "types.AuxPow.ProtoDecode+ConvertToTemplate/MerkleRoot", Kinds: []string{"auxpow"}, Fn: func(in []byte) string {
		p := new(types.ProtoAuxPow)
		if err := proto.Unmarshal(in, p); err != nil {
			return c15ErrClass(err)
		}
		ap := new(types.AuxPow)
		if err := ap.ProtoDecode(p); err != nil {
			return c15ErrClass(err)
		}
		if ap.Header() == nil {
			return "decoded-without-header"
		}
		ok := ap.ConvertToTemplate().VerifySignature()
		_ = types.CalculateMerkleRoot(ap.PowID(), ap.Transaction(), ap.MerkleBranch())
		_ = types.ValidatePrevOutPointIndexAndSequenceOfCoinbase(ap.Transaction())
		_ = ap.Header().PowHash()
		return fmt.Sprintf("template-sig=%v", ok)
	}})

	// ------------------------------------------------------------------ RPC raw submissions
	rpcE := func(name string, kinds []string, fn func(in []byte) error) {
		env.add(&c15Entry{Name: "rpc." + name, Kinds: kinds, Wrapped: c15WrapRPC, Fn: func(in []byte) string { return c15ErrClass(fn(in)) }})
	}
	rpcE("quai_receiveMinedHeader", []string{"wo-petx"}, func(in []byte) error { return env.bcAPI.ReceiveMinedHeader(ctx, in) })
	rpcE("quai_calcOrder", []string{"wo-petx"}, func(in []byte) error { _, err := env.bcAPI.CalcOrder(ctx, in); return err })
	rpcE("quai_receiveRawWorkShare", []string{"woheader"}, func(in []byte) error { return env.bcAPI.ReceiveRawWorkShare(ctx, in) })
	rpcE("quai_submitAuxTemplate", []string{"auxtemplate"}, func(in []byte) error { return env.bcAPI.SubmitAuxTemplate(ctx, in) })
	rpcE("quai_sendRawTransaction", []string{"tx"}, func(in []byte) error { _, err := env.txAPI.SendRawTransaction(ctx, in); return err })
	rpcE("workshare_receiveSubWorkshare", []string{"wo-any"}, func(in []byte) error { return env.wsAPI.ReceiveSubWorkshare(ctx, in) })
	rpcE("quai_submitKawpowBlock", []string{"donor-block-kawpow"}, func(in []byte) error { _, err := env.bcAPI.SubmitKawpowBlock(ctx, in); return err })
	rpcE("quai_submitShaBlock", []string{"donor-block-sha_bch", "donor-block-sha_btc"}, func(in []byte) error { _, err := env.bcAPI.SubmitShaBlock(ctx, in); return err })
	rpcE("quai_submitScryptBlock", []string{"donor-block-scrypt"}, func(in []byte) error { _, err := env.bcAPI.SubmitScryptBlock(ctx, in); return err })

	// ------------------------------------------------------------------ donor chain parsers
	env.add(&c15Entry{Name: "types.DecodeRavencoinHeader", Kinds: []string{"donor-header-kawpow"}, Fn: func(in []byte) string {
		h, err := types.DecodeRavencoinHeader(in)
		if err == nil {
			_ = h.BlockHash()
			_ = h.GetKAWPOWHeaderHash()
		}
		return c15ErrClass(err)
	}})
	env.add(&c15Entry{Name: "types.RavencoinBlockHeader.Deserialize", Kinds: []string{"donor-header-kawpow"}, Fn: func(in []byte) string {
		return c15ErrClass(new(types.RavencoinBlockHeader).Deserialize(bytes.NewReader(in)))
	}})
	env.add(&c15Entry{Name: "types.BitcoinHeaderWrapper.Deserialize", Kinds: []string{"donor-header-sha_btc"}, Fn: func(in []byte) string {
		h := new(types.BitcoinHeaderWrapper)
		err := h.Deserialize(bytes.NewReader(in))
		if err == nil {
			_ = h.BlockHash()
			_ = h.PowHash()
		}
		return c15ErrClass(err)
	}})
	env.add(&c15Entry{Name: "types.BitcoinCashHeaderWrapper.Deserialize", Kinds: []string{"donor-header-sha_bch"}, Fn: func(in []byte) string {
		h := new(types.BitcoinCashHeaderWrapper)
		err := h.Deserialize(bytes.NewReader(in))
		if err == nil {
			_ = h.BlockHash()
			_ = h.PowHash()
		}
		return c15ErrClass(err)
	}})
	env.add(&c15Entry{Name: "types.LitecoinHeaderWrapper.Deserialize", Kinds: []string{"donor-header-scrypt"}, Fn: func(in []byte) string {
		h := new(types.LitecoinHeaderWrapper)
		err := h.Deserialize(bytes.NewReader(in))
		if err == nil {
			_ = h.BlockHash()
			_ = h.PowHash()
		}
		return c15ErrClass(err)
	}})
	env.add(&c15Entry{Name: "types.coinbase parsers", Kinds: []string{"donor-coinbase"}, Fn: func(in []byte) string {
		ss := types.ExtractScriptSigFromCoinbaseTx(in)
		_, e1 := types.ExtractSignatureTimeFromCoinbase(ss)
		_, e2 := types.ExtractSealHashFromCoinbase(ss)
		_, _, e3 := types.ExtractMerkleSizeAndNonceFromCoinbase(ss)
		_, e4 := types.ExtractHeightFromCoinbase(ss)
		out := types.ExtractCoinbaseOutFromCoinbaseTx(in)
		_ = types.HasWitnessCommitment(out)
		e5 := types.ValidatePrevOutPointIndexAndSequenceOfCoinbase(in)
		b := c15H(0x61)
		for _, id := range []types.PowID{types.Kawpow, types.SHA_BTC, types.SHA_BCH, types.Scrypt} {
			_ = types.CalculateMerkleRoot(id, in, [][]byte{b[:]})
			_ = types.AuxPowTxHash(id, in)
		}
		ok := 0
		for _, e := range []error{e1, e2, e3, e4, e5} {
			if e == nil {
				ok++
			}
		}
		return fmt.Sprintf("scriptsig=%v parsers-ok=%d", len(ss) > 0, ok)
	}})
	// the same parsers fed the scriptSig directly (what the share validator passes on)
	env.add(&c15Entry{Name: "types.scriptSig parsers", Kinds: []string{"donor-scriptsig"}, Fn: func(ss []byte) string {
		_, e1 := types.ExtractSignatureTimeFromCoinbase(ss)
		_, e2 := types.ExtractSealHashFromCoinbase(ss)
		_, _, e3 := types.ExtractMerkleSizeAndNonceFromCoinbase(ss)
		_, e4 := types.ExtractHeightFromCoinbase(ss)
		ok := 0
		for _, e := range []error{e1, e2, e3, e4} {
			if e == nil {
				ok++
			}
		}
		return fmt.Sprintf("parsers-ok=%d", ok)
	}})

	// ------------------------------------------------------------------ RLP
	rlpE := func(name string, mk func() interface{}) {
		env.add(&c15Entry{Name: "rlp.DecodeBytes[" + name + "]", Kinds: []string{"rlp-" + name, "rlp-any"}, Fn: func(in []byte) string {
			return c15ErrClass(rlp.DecodeBytes(in, mk()))
		}})
	}
	rlpE("Transaction", func() interface{} { return new(types.Transaction) })
	rlpE("Transactions", func() interface{} { return new(types.Transactions) })
	rlpE("Receipt", func() interface{} { return new(types.Receipt) })
	rlpE("ReceiptForStorage", func() interface{} { return new(types.ReceiptForStorage) })
	rlpE("Log", func() interface{} { return new(types.Log) })
	rlpE("LogForStorage", func() interface{} { return new(types.LogForStorage) })
	rlpE("AccessList", func() interface{} { return new(types.AccessList) })
	rlpE("Address", func() interface{} { return new(common.Address) })
	rlpE("Hashes", func() interface{} { return new([]common.Hash) })
	rlpE("Account", func() interface{} { return new(state.Account) })
	rlpE("BigInt", func() interface{} { return new(big.Int) })
	rlpE("Bytes", func() interface{} { return new([]byte) })
	rlpE("Uint64", func() interface{} { return new(uint64) })
	rlpE("TxIns", func() interface{} { return new(types.TxIns) })
	rlpE("TxOuts", func() interface{} { return new(types.TxOuts) })
	rlpE("Interface", func() interface{} { return new(interface{}) })
}

// ---- text (JSON / hex) entry points, keyed by baseline name ----

func c15TextEntries() map[string][]*c15Entry {
	m := map[string][]*c15Entry{}
	add := func(base, name string, fn func(in []byte) error) {
		m[base] = append(m[base], &c15Entry{Name: name, Wrapped: "RPC argument decoding runs in handler.startCallProc, which has a recover() (rpc/handler.go); the same UnmarshalJSON methods are used by quaiclient on node replies", Fn: func(in []byte) string { return c15ErrClass(fn(in)) }})
	}
	add("workobject", "json[types.WorkObject]", func(in []byte) error { return json.Unmarshal(in, new(types.WorkObject)) })
	add("woheader", "json[types.WorkObjectHeader]", func(in []byte) error { return json.Unmarshal(in, new(types.WorkObjectHeader)) })
	add("header", "json[types.Header]", func(in []byte) error { return json.Unmarshal(in, new(types.Header)) })
	add("auxpow", "json[types.AuxPow]", func(in []byte) error { return json.Unmarshal(in, new(types.AuxPow)) })
	for _, t := range []string{"tx/quai", "tx/qi", "tx/etx"} {
		add(t, "json[types.Transaction]", func(in []byte) error { return json.Unmarshal(in, new(types.Transaction)) })
	}
	add("powshare", "json[types.PowShareDiffAndCount]", func(in []byte) error { return json.Unmarshal(in, new(types.PowShareDiffAndCount)) })
	add("hexbytes", "json[hexutil.Bytes]", func(in []byte) error { return json.Unmarshal(in, new(hexutil.Bytes)) })
	add("hexbig", "json[hexutil.Big]", func(in []byte) error { return json.Unmarshal(in, new(hexutil.Big)) })
	add("hexuint64", "json[hexutil.Uint64]", func(in []byte) error { return json.Unmarshal(in, new(hexutil.Uint64)) })
	add("hexuint64", "json[hexutil.Uint]", func(in []byte) error { return json.Unmarshal(in, new(hexutil.Uint)) })
	add("hexuint64", "json[rpc.DecimalOrHex]", func(in []byte) error { return json.Unmarshal(in, new(rpc.DecimalOrHex)) })
	add("hash", "json[common.Hash]", func(in []byte) error { return json.Unmarshal(in, new(common.Hash)) })
	add("address", "json[common.Address]", func(in []byte) error { return json.Unmarshal(in, new(common.Address)) })
	add("address", "json[common.MixedcaseAddress]", func(in []byte) error { return json.Unmarshal(in, new(common.MixedcaseAddress)) })
	add("address", "json[common.AddressBytes]", func(in []byte) error { return json.Unmarshal(in, new(common.AddressBytes)) })
	add("address", "json[common.InternalAddress]", func(in []byte) error { return json.Unmarshal(in, new(common.InternalAddress)) })
	add("blocknumber", "json[rpc.BlockNumber]", func(in []byte) error { return json.Unmarshal(in, new(rpc.BlockNumber)) })
	add("blocknumber-tag", "json[rpc.BlockNumber]", func(in []byte) error { return json.Unmarshal(in, new(rpc.BlockNumber)) })
	add("blocknumber", "json[rpc.BlockNumberOrHash]", func(in []byte) error { return json.Unmarshal(in, new(rpc.BlockNumberOrHash)) })
	add("blocknumberorhash", "json[rpc.BlockNumberOrHash]", func(in []byte) error { return json.Unmarshal(in, new(rpc.BlockNumberOrHash)) })
	add("txargs", "json[quaiapi.TransactionArgs]", func(in []byte) error { return json.Unmarshal(in, new(quaiapi.TransactionArgs)) })
	add("filter", "json[filters.FilterCriteria]", func(in []byte) error { return json.Unmarshal(in, new(filters.FilterCriteria)) })
	// raw hex text decoders used by the above and by CLI / config parsing
	add("hexbytes", "hexutil.Decode", func(in []byte) error { _, err := hexutil.Decode(c15Unquote(in)); return err })
	add("hexbig", "hexutil.DecodeBig", func(in []byte) error { _, err := hexutil.DecodeBig(c15Unquote(in)); return err })
	add("hexuint64", "hexutil.DecodeUint64", func(in []byte) error { _, err := hexutil.DecodeUint64(c15Unquote(in)); return err })
	return m
}

func c15Unquote(in []byte) string {
	s := string(in)
	if len(s) >= 2 && s[0] == '"' && s[len(s)-1] == '"' {
		return s[1 : len(s)-1]
	}
	return s
}
