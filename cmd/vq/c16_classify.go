package main

import (
	"bytes"
	"crypto/ecdsa"
	"encoding/binary"
	"fmt"
	"math/big"
	"strings"
	"sync"

	"github.com/dominant-strategies/go-quai/common"
	"github.com/dominant-strategies/go-quai/core/types"
	"github.com/dominant-strategies/go-quai/core/vm"
	"github.com/dominant-strategies/go-quai/crypto"
	"github.com/dominant-strategies/go-quai/rlp"
	"github.com/dominant-strategies/go-quai/verifshim/vx"
)

// c16ClassCase is one construction: constructor, node location, input bytes (hex) and, for the
// derived constructors, a counter.
type c16ClassCase struct {
	Ctor string `json:"ctor"`
	Var  string `json:"variant,omitempty"`
	Loc  []int  `json:"node_location"`
	In   string `json:"input_hex"`
	N    uint64 `json:"n,omitempty"`
}

func (cs c16ClassCase) loc() common.Location {
	l := make(common.Location, len(cs.Loc))
	for i, v := range cs.Loc {
		l[i] = byte(v)
	}
	return l
}

func c16LocInts(l common.Location) []int {
	r := make([]int, len(l))
	for i, v := range l {
		r[i] = int(v)
	}
	return r
}

// constructors that accept input of any length (the held 20 bytes are the right-aligned crop/pad)
var c16AnyLenCtors = []string{"BytesToAddress", "HexToAddress", "BigToAddress", "ProtoDecode", "DecodeRLP", "QuaiTx.ProtoDecode.To", "ExternalTx.ProtoDecode.Sender", "AccessList.ProtoDecode.Address"}

// constructors that only accept exactly 20 bytes
var c16ExactCtors = []string{"Bytes20ToAddress", "UnmarshalText", "UnmarshalJSON", "MixedcaseAddress.UnmarshalJSON", "NewMixedcaseAddressFromString", "Scan"}

var c16DerivedCtors = []string{"CreateAddress", "CreateAddress2", "PubkeyToAddress", "PubkeyBytesToAddress"}

// decoders without a node-location parameter and the location they hard-code
var c16Locless = map[string]common.Location{
	"DecodeRLP":                      {0, 0},
	"UnmarshalText":                  {0, 0},
	"UnmarshalJSON":                  {0, 0},
	"MixedcaseAddress.UnmarshalJSON": {},
}

type c16OutKey struct{ ctor, lc, out string }

// c16ClassOut accumulates outcome classes of the classify part locally (flushed at the end).
var c16ClassOut = map[c16OutKey]int64{}

func c16FlushClassOut(p *vx.Part) {
	if p.Outcomes == nil {
		p.Outcomes = map[string]int64{}
	}
	for k, n := range c16ClassOut {
		p.Outcomes[k.ctor+":"+k.lc+":"+k.out] += n
	}
	c16ClassOut = map[c16OutKey]int64{}
}

var (
	c16KeysOnce sync.Once
	c16Pubs     []*ecdsa.PublicKey
	c16PubBytes [][]byte
)

const c16DerivedN = 8192

func c16Keys() {
	c16KeysOnce.Do(func() {
		for i := 1; i <= c16DerivedN; i++ {
			var d [32]byte
			binary.BigEndian.PutUint64(d[24:], uint64(i))
			d[0] = 0x01 // keep the scalar far from tiny values, still deterministic
			k := crypto.ToECDSAUnsafe(d[:])
			c16Pubs = append(c16Pubs, &k.PublicKey)
			c16PubBytes = append(c16PubBytes, crypto.FromECDSAPub(&k.PublicKey))
		}
	})
}

// c16Build runs the constructor of the case on the real code.
// ok=false: the constructor refused the input (errClass says how).
func c16Build(cs c16ClassCase) (a common.Address, ok bool, errClass string) {
	in := c16UnHex(cs.In)
	loc := cs.loc()
	switch cs.Ctor {
	case "Bytes20ToAddress":
		if len(in) != 20 {
			return a, false, "n/a"
		}
		var b [20]byte
		copy(b[:], in)
		return common.Bytes20ToAddress(b, loc), true, ""
	case "BytesToAddress":
		return common.BytesToAddress(in, loc), true, ""
	case "HexToAddress":
		s := cs.In
		switch cs.Var {
		case "plain-upper":
			s = strings.ToUpper(s)
		case "odd": // FromHex left-pads an odd number of digits
			if len(s) == 0 || s[0] != '0' {
				return a, false, "n/a"
			}
			s = "0x" + s[1:]
		case "0X":
			s = "0X" + s
		default:
			s = "0x" + s
		}
		return common.HexToAddress(s, loc), true, ""
	case "BigToAddress":
		return common.BigToAddress(new(big.Int).SetBytes(in), loc), true, ""
	case "ProtoDecode":
		pa := &common.ProtoAddress{Value: in}
		if cs.Var == "nil-value" {
			pa.Value = nil
		}
		// through the wire form, as a peer would deliver it
		if err := a.ProtoDecode(pa, loc); err != nil {
			return a, false, "error"
		}
		return a, true, ""
	case "DecodeRLP":
		enc, err := rlp.EncodeToBytes(in)
		if err != nil {
			return a, false, "harness"
		}
		if err := rlp.DecodeBytes(enc, &a); err != nil {
			return a, false, "error"
		}
		return a, true, ""
	case "QuaiTx.ProtoDecode.To", "ExternalTx.ProtoDecode.Sender", "AccessList.ProtoDecode.Address":
		// a transaction as a peer delivers it; the address field under test carries the input bytes
		typ, nonce, gas, idx, etyp := uint64(types.QuaiTxType), uint64(1), uint64(21000), uint32(0), uint64(0)
		to20 := make([]byte, 20)
		to20[0] = 0x12
		ptx := &types.ProtoTransaction{Type: &typ, Nonce: &nonce, Gas: &gas, AccessList: &types.ProtoAccessList{}, Value: []byte{1}, GasPrice: []byte{1},
			Data: []byte{}, ChainId: []byte{1}, To: to20, V: []byte{}, R: []byte{}, S: []byte{}}
		switch cs.Ctor {
		case "QuaiTx.ProtoDecode.To":
			ptx.To = in
		case "ExternalTx.ProtoDecode.Sender":
			typ = uint64(types.ExternalTxType)
			ptx.EtxSender, ptx.EtxIndex, ptx.EtxType = in, &idx, &etyp
			ptx.OriginatingTxHash = &common.ProtoHash{Value: make([]byte, 32)}
		case "AccessList.ProtoDecode.Address":
			ptx.AccessList = &types.ProtoAccessList{AccessTuples: []*types.ProtoAccessTuple{{Address: in}}}
		}
		tx := new(types.Transaction)
		if err := tx.ProtoDecode(ptx, loc); err != nil {
			return a, false, "harness:" + err.Error()
		}
		switch cs.Ctor {
		case "QuaiTx.ProtoDecode.To":
			return *tx.To(), true, ""
		case "ExternalTx.ProtoDecode.Sender":
			return tx.ETXSender(), true, ""
		}
		return tx.AccessList()[0].Address, true, ""
	case "UnmarshalText":
		if err := a.UnmarshalText([]byte("0x" + cs.In)); err != nil {
			return a, false, "error"
		}
		return a, true, ""
	case "UnmarshalJSON":
		if err := a.UnmarshalJSON([]byte(`"0x` + cs.In + `"`)); err != nil {
			return a, false, "error"
		}
		return a, true, ""
	case "MixedcaseAddress.UnmarshalJSON":
		var ma common.MixedcaseAddress
		if err := ma.UnmarshalJSON([]byte(`"0x` + cs.In + `"`)); err != nil {
			return a, false, "error"
		}
		return ma.Address(), true, ""
	case "NewMixedcaseAddressFromString":
		ma, err := common.NewMixedcaseAddressFromString("0x"+cs.In, loc)
		if err != nil {
			return a, false, "error"
		}
		return ma.Address(), true, ""
	case "Scan":
		if err := a.Scan(in, loc); err != nil {
			return a, false, "error"
		}
		return a, true, ""
	case "CreateAddress":
		var s [20]byte
		copy(s[:], in)
		return crypto.CreateAddress(common.Bytes20ToAddress(s, loc), cs.N, []byte{0x60, 0x00}, loc), true, ""
	case "CreateAddress2":
		var s [20]byte
		copy(s[:], in)
		var salt [32]byte
		binary.BigEndian.PutUint64(salt[24:], cs.N)
		return crypto.CreateAddress2(common.Bytes20ToAddress(s, loc), salt, crypto.Keccak256([]byte{0x00}), loc), true, ""
	case "PubkeyToAddress":
		c16Keys()
		return crypto.PubkeyToAddress(*c16Pubs[cs.N%c16DerivedN], loc), true, ""
	case "PubkeyBytesToAddress":
		c16Keys()
		return crypto.PubkeyBytesToAddress(c16PubBytes[cs.N%c16DerivedN], loc), true, ""
	case "ZeroAddress":
		return common.ZeroAddress(loc), true, ""
	case "ZeroInternal":
		z := common.ZeroInternal(loc)
		return common.NewAddressFromData(&z), true, ""
	case "OneInternal":
		z := common.OneInternal(loc)
		return common.NewAddressFromData(&z), true, ""
	}
	return a, false, "unknown-ctor"
}

func c16LenClass(cs c16ClassCase) string {
	switch cs.Ctor {
	case "CreateAddress", "CreateAddress2", "PubkeyToAddress", "PubkeyBytesToAddress", "GrindContract", "ZeroAddress", "ZeroInternal", "OneInternal":
		return "derived"
	}
	n := len(cs.In) / 2
	if cs.Ctor == "BigToAddress" { // the integer has no leading zero bytes
		n = len(new(big.Int).SetBytes(c16UnHex(cs.In)).Bytes())
	}
	switch {
	case n < 20:
		return "short"
	case n > 20:
		return "long"
	}
	return "len20"
}

func c16Kind(internal bool) string {
	if internal {
		return "internal"
	}
	return "external"
}

// c16Judge compares everything the repository says about address a with the reference partition.
func c16Judge(cs c16ClassCase, a common.Address) (divs []c16Div, outcome string) {
	node := cs.loc()
	lc := c16LenClass(cs)
	add := func(what, format string, args ...any) {
		divs = append(divs, c16Div{cs.Ctor + ":" + lc + ":" + what, fmt.Sprintf("%s(%s %s) at node %s: ", cs.Ctor, cs.Var, cs.In, c16LocName(node)) + fmt.Sprintf(format, args...)})
	}
	held := a.Bytes()
	if len(held) != common.AddressLength {
		add("no-address", "constructor succeeded but the object holds %d bytes", len(held))
		return divs, "no-address"
	}
	eff, locless := c16Locless[cs.Ctor]
	if !locless {
		eff = node
	}
	_, errI := a.InternalAddress()
	isInt := errI == nil
	refEff, refNode, refQi := c16RefInternal(held, eff), c16RefInternal(held, node), c16RefQi(held)
	var h20 [20]byte
	copy(h20[:], held)
	if isInt != refEff {
		_, e20 := common.Bytes20ToAddress(h20, eff).InternalAddress()
		add("scope", "object holds %x (zone byte %#02x, prefix of %s is %s) and is classified %s; the partition says %s and Bytes20ToAddress of the same bytes says %s",
			held, held[0], c16LocName(eff), c16Prefix(eff), c16Kind(isInt), c16Kind(refEff), c16Kind(e20 == nil))
	} else if locless && isInt != refNode {
		divs = append(divs, c16Div{cs.Ctor + ":ignores-node-location", fmt.Sprintf("%s(%s) on a node at %s: object holds %x and is classified %s because the decoder classifies against the hard-coded location %s; for this node the partition (and BytesToAddress(...,%s)) says %s",
			cs.Ctor, cs.In, c16LocName(node), held, c16Kind(isInt), c16LocName(eff), c16LocName(node), c16Kind(refNode))})
	}
	qi, quai := a.IsInQiLedgerScope(), a.IsInQuaiLedgerScope()
	if qi != refQi || quai == qi {
		add("ledger", "object holds %x (ledger byte %#02x): IsInQiLedgerScope=%v IsInQuaiLedgerScope=%v, partition says qi=%v", held, held[1], qi, quai, refQi)
	}
	if _, e := a.InternalAndQuaiAddress(); (e == nil) != (isInt && !refQi) {
		add("internal-and-quai", "object holds %x classified %s: InternalAndQuaiAddress err=%v but qi=%v", held, c16Kind(isInt), e, refQi)
	}
	if _, e := a.InternalAndQiAddress(); (e == nil) != (isInt && refQi) {
		add("internal-and-qi", "object holds %x classified %s: InternalAndQiAddress err=%v but qi=%v", held, c16Kind(isInt), e, refQi)
	}
	if l := a.Location(); l == nil || !l.Equal(c16RefLocation(held)) {
		add("location", "object holds %x: Location()=%v, partition says %v", held, l, c16RefLocation(held))
	}
	if isInt {
		if ia, _ := a.InternalAddress(); !bytes.Equal(ia[:], held) {
			add("internal-bytes", "InternalAddress() returns %x for an object holding %x", ia[:], held)
		}
	}
	ledger := "quai"
	if refQi {
		ledger = "qi"
	}
	return divs, c16Kind(isInt) + "/" + ledger
}

func c16Prefix(l common.Location) string {
	if len(l) != 2 {
		return "none"
	}
	return fmt.Sprintf("%#02x", l[0]<<4|l[1])
}

// c16JudgePredicates checks the byte-level predicates (no Address object involved) on 20 bytes.
func c16JudgePredicates(held []byte, node common.Location) (divs []c16Div) {
	add := func(name, format string, args ...any) {
		divs = append(divs, c16Div{"predicate:" + name, fmt.Sprintf("%s on %x at node %s: ", name, held, c16LocName(node)) + fmt.Sprintf(format, args...)})
	}
	refNode, refQi, refLoc := c16RefInternal(held, node), c16RefQi(held), c16RefLocation(held)
	var h20 [20]byte
	copy(h20[:], held)
	if got := common.IsInChainScope(held, node); got != refNode {
		add("IsInChainScope", "returns %v, partition says %v", got, refNode)
	}
	ab := common.AddressBytes(h20)
	if !ab.Location().Equal(refLoc) {
		add("AddressBytes.Location", "returns %v, partition says %v", *ab.Location(), refLoc)
	}
	if ab.IsInQiLedgerScope() != refQi || ab.IsInQuaiLedgerScope() == refQi {
		add("AddressBytes.ledger", "qi=%v quai=%v, partition says qi=%v", ab.IsInQiLedgerScope(), ab.IsInQuaiLedgerScope(), refQi)
	}
	ia := common.InternalAddress(h20)
	if !ia.Location().Equal(refLoc) {
		add("InternalAddress.Location", "returns %v, partition says %v", *ia.Location(), refLoc)
	}
	if ia.IsInQiLedgerScope() != refQi || ia.IsInQuaiLedgerScope() == refQi {
		add("InternalAddress.ledger", "qi=%v quai=%v, partition says qi=%v", ia.IsInQiLedgerScope(), ia.IsInQuaiLedgerScope(), refQi)
	}
	ea := common.ExternalAddress(h20)
	if !ea.Location().Equal(refLoc) {
		add("ExternalAddress.Location", "returns %v, partition says %v", *ea.Location(), refLoc)
	}
	if l := common.LocationFromAddressBytes(held); !l.Equal(refLoc) {
		add("LocationFromAddressBytes", "returns %v, partition says %v", l, refLoc)
	}
	if got := common.IsConversionOutput(held, node); got != (refNode && !refQi) {
		add("IsConversionOutput", "returns %v, partition says in-zone=%v qi=%v", got, refNode, refQi)
	}
	if err := common.CheckIfBytesAreInternalAndQiAddress(held, node); (err == nil) != (refNode && refQi) {
		add("CheckIfBytesAreInternalAndQiAddress", "err=%v, partition says in-zone=%v qi=%v", err, refNode, refQi)
	}
	if got := node.ContainsAddress(common.Bytes20ToAddress(h20, node)); got != refNode {
		add("Location.ContainsAddress", "returns %v, partition says %v", got, refNode)
	}
	return divs
}

// c16ClassExec executes one case (used by the exploration and by replay).
func c16ClassExec(cs c16ClassCase, p *vx.Part) (divs []c16Div) {
	if cs.Ctor == "GrindContract" {
		return c16GrindExec(cs, p)
	}
	if cs.Ctor == "predicates" {
		return c16JudgePredicates(c16UnHex(cs.In), cs.loc())
	}
	var a common.Address
	var ok bool
	var ec string
	perr := vx.Guard(func() { a, ok, ec = c16Build(cs) })
	if perr != "" {
		if p != nil {
			p.Outcome(cs.Ctor + ":panic")
		}
		return []c16Div{{cs.Ctor + ":" + c16LenClass(cs) + ":panic@" + vx.PanicSite(perr), fmt.Sprintf("%s(%s) at node %s panicked: %s", cs.Ctor, cs.In, c16LocName(cs.loc()), perr)}}
	}
	if !ok {
		if ec == "n/a" {
			return nil
		}
		if strings.HasPrefix(ec, "harness") || ec == "unknown-ctor" {
			panic("C16 classify harness: " + cs.Ctor + ": " + ec)
		}
		if p != nil {
			p.Evals++
			c16ClassOut[c16OutKey{cs.Ctor, c16LenClass(cs), "refused"}]++
		}
		// the fixed-size decoders must refuse anything that is not 20 bytes; refusing 20 bytes is wrong
		if ec == "error" && len(cs.In) == 40 && cs.Var != "nil-value" {
			return []c16Div{{cs.Ctor + ":len20:refused", fmt.Sprintf("%s refuses the 20-byte input %s", cs.Ctor, cs.In)}}
		}
		return nil
	}
	divs, out := c16Judge(cs, a)
	if p != nil {
		p.Evals++
		p.Traces++
		c16ClassOut[c16OutKey{cs.Ctor, c16LenClass(cs), out}]++
	}
	return divs
}

func c16GrindExec(cs c16ClassCase, p *vx.Part) (divs []c16Div) {
	loc := cs.loc()
	var s [20]byte
	copy(s[:], c16UnHex(cs.In))
	gas, gasCost, block := uint64(1<<40), int64(36), big.NewInt(1)
	switch cs.Var {
	case "post-fork":
		block = big.NewInt(1 << 40)
	case "low-gas":
		gas = 36 * 40
	}
	var a common.Address
	var left uint64
	var err error
	perr := vx.Guard(func() {
		a, left, err = vm.GrindContract(common.Bytes20ToAddress(s, loc), cs.N, gas, gasCost, crypto.Keccak256Hash([]byte{byte(cs.N)}), block, loc)
	})
	if perr != "" {
		return []c16Div{{"GrindContract:panic@" + vx.PanicSite(perr), perr}}
	}
	if p != nil {
		p.Evals++
		p.Traces++
	}
	if err != nil {
		if p != nil {
			cl := "error:other"
			switch {
			case strings.Contains(err.Error(), "out of gas"):
				cl = "error:out-of-gas"
			case strings.Contains(err.Error(), "exceeded"):
				cl = "error:attempts-exceeded"
			}
			p.Outcome("GrindContract:" + cl)
		}
		return nil
	}
	if left > gas {
		divs = append(divs, c16Div{"GrindContract:gas", fmt.Sprintf("gas left %d > gas given %d", left, gas)})
	}
	d, out := c16Judge(cs, a)
	divs = append(divs, d...)
	if !c16RefInZoneQuai(a.Bytes(), loc) {
		divs = append(divs, c16Div{"GrindContract:returns-non-in-zone-quai", fmt.Sprintf("GrindContract(sender %s, nonce %d) at node %s returned %x without error; it is not an in-zone Quai address", cs.In, cs.N, c16LocName(loc), a.Bytes())})
	}
	if p != nil {
		p.Outcome("GrindContract:found:" + out)
	}
	return divs
}

func c16NodeLocations(thorough bool) []common.Location {
	locs := []common.Location{{}, {0}}
	if thorough {
		for r := 1; r < 16; r++ {
			locs = append(locs, common.Location{byte(r)})
		}
		for r := 0; r < 16; r++ {
			for z := 0; z < 16; z++ {
				locs = append(locs, common.Location{byte(r), byte(z)})
			}
		}
		return locs
	}
	return append(locs, common.Location{0, 0}, common.Location{0, 1}, common.Location{1, 0}, common.Location{1, 2}, common.Location{2, 1}, common.Location{7, 8}, common.Location{15, 15})
}

var c16LedgerBytes = []byte{0x00, 0x7f, 0x80, 0xff}

func c16Tail(kind int, n int) []byte {
	t := make([]byte, n)
	for i := range t {
		switch kind {
		case 1:
			t[i] = 0xff
		case 2:
			t[i] = byte(0x11 * (i + 1))
		}
	}
	return t
}

// c16Classify: phase 1 = the primary node locations (prime, region 0, zones 0-0 0-1 1-0 1-2 2-1 7-8
// 15-15) with the tier's full length menu; phase 2 (thorough only) = every other region and zone with
// the quick length menu, so that all 256 zone prefixes meet all 256 first bytes.
func c16Classify(c *vx.Ctx, phase int) {
	p := c.Part("classify")
	defer c16FlushClassOut(p)
	locs := c16NodeLocations(false)
	longLens := []int{21, 22, 32, 33}
	pads := 4
	shortAll := phase == 1 && c.Thorough()
	if c.Quick() {
		longLens, pads = []int{21, 32, 33}, 3
	}
	if phase == 1 && c.Thorough() {
		longLens = nil
		for l := 21; l <= 33; l++ {
			longLens = append(longLens, l)
		}
	}
	if phase == 2 {
		prim := map[string]bool{}
		for _, l := range locs {
			prim[string(l)+"/"+fmt.Sprint(len(l))] = true
		}
		locs = nil
		for _, l := range c16NodeLocations(true) {
			if !prim[string(l)+"/"+fmt.Sprint(len(l))] {
				locs = append(locs, l)
			}
		}
	}
	var names []string
	for _, l := range locs {
		names = append(names, c16LocName(l))
	}
	if len(names) > 16 {
		names = append(names[:6], fmt.Sprintf("... %d further locations: all remaining regions 1..15 and zones r-z, r,z in 0..15", len(locs)))
	}
	ph := fmt.Sprintf("phase%d/", phase)
	p.Bound(ph+"node_locations", names)
	p.Bound(ph+"long_input_lengths", longLens)
	if shortAll {
		p.Bound(ph+"short_input_lengths", "0..19 (all)")
	} else {
		p.Bound(ph+"short_input_lengths", []int{0, 1, 2, 10, 19})
	}
	p.Bound(ph+"long_input_padding", []string{"0x00", "node prefix", "first byte of the held address", "0xff"}[:pads])
	p.Bound("first_bytes", 256)
	p.Bound("ledger_bytes", []string{"0x00", "0x7f", "0x80", "0xff"})
	p.Bound("tails", []string{"zeros", "0xff..", "0x11,0x22,.."})
	p.Bound("input_lengths", "exact: 20; short and long: see phaseN/*_input_lengths")
	p.Bound("constructors", append(append(append([]string{}, c16AnyLenCtors...), c16ExactCtors...), append(c16DerivedCtors, "GrindContract", "ZeroAddress", "ZeroInternal", "OneInternal", "byte-level predicates")...))
	p.Bound("derived_inputs_per_constructor_and_location", c16DerivedN)
	hexVars := []string{"0x", "plain-upper", "0X", "odd"}

	reported := map[string]bool{}
	report := func(cs c16ClassCase, divs []c16Div) {
		for _, d := range divs {
			if reported[d.Key] {
				continue
			}
			reported[d.Key] = true
			d := d
			if c.Confirm(d.Desc, func() string {
				for _, x := range c16ClassExec(cs, nil) {
					if x.Key == d.Key {
						return x.Key
					}
				}
				return ""
			}) {
				cs := cs
				c.Violate("classify", d.Key, d.Desc, c16Replay{Part: "classify", Class: &cs})
			}
		}
	}
	nrun := 0
	run := func(cs c16ClassCase) {
		divs := c16ClassExec(cs, p)
		if len(divs) > 0 {
			report(cs, divs)
		} else if nrun++; nrun%40009 == 0 {
			p.Sample(cs)
		}
	}
	runAny := func(li []int, in []byte) {
		h := c16Hex(in)
		for _, ct := range c16AnyLenCtors {
			if ct == "HexToAddress" {
				for _, v := range hexVars {
					run(c16ClassCase{Ctor: ct, Var: v, Loc: li, In: h})
				}
				continue
			}
			run(c16ClassCase{Ctor: ct, Loc: li, In: h})
		}
	}

	var item int64
	for _, loc := range locs {
		li := c16LocInts(loc)
		pre := byte(0x11)
		if len(loc) == 2 {
			pre = loc[0]<<4 | loc[1]
		}
		for f := 0; f < 256; f++ {
			item++
			if !c.Mine(item) {
				continue
			}
			if c.Expired() {
				p.Incomplete(fmt.Sprintf("deadline at node %s first byte %#02x", c16LocName(loc), f))
				return
			}
			for _, lb := range c16LedgerBytes {
				for tk := 0; tk < 3; tk++ {
					// --- exact 20-byte address X and padded (long) inputs that hold X ---
					x := append([]byte{byte(f), lb}, c16Tail(tk, 18)...)
					hx := c16Hex(x)
					run(c16ClassCase{Ctor: "predicates", Loc: li, In: hx})
					p.Evals++
					p.Traces++
					for _, ct := range c16ExactCtors {
						run(c16ClassCase{Ctor: ct, Loc: li, In: hx})
					}
					runAny(li, x)
					for _, L := range longLens {
						for _, pad := range []byte{0x00, pre, byte(f), 0xff}[:pads] {
							runAny(li, append(bytes.Repeat([]byte{pad}, L-20), x...))
						}
					}
					// --- short inputs: first byte f, ledger byte, tail ---
					for L := 0; L < 20; L++ {
						if !shortAll && L > 2 && L != 10 && L != 19 {
							continue // quick tier and secondary locations: short lengths 0,1,2,10,19
						}
						if (L == 0 && (f != 0 || lb != 0 || tk != 0)) || (L == 1 && (lb != 0 || tk != 0)) || (L == 2 && tk != 0) {
							continue // fewer distinct inputs than menu entries
						}
						var in []byte
						if L >= 1 {
							in = append(in, byte(f))
						}
						if L >= 2 {
							in = append(in, lb)
							in = append(in, c16Tail(tk, L-2)...)
						}
						runAny(li, in)
					}
				}
			}
		}
		// --- wrong sizes for the fixed-size decoders, nil proto value ---
		item++
		if c.Mine(item) {
			for _, n := range []int{0, 1, 19, 21, 32} {
				in := c16Hex(append([]byte{pre, 0x80}, c16Tail(2, 30)...)[:n])
				for _, ct := range []string{"UnmarshalText", "UnmarshalJSON", "MixedcaseAddress.UnmarshalJSON", "NewMixedcaseAddressFromString", "Scan"} {
					run(c16ClassCase{Ctor: ct, Loc: li, In: in})
				}
			}
			run(c16ClassCase{Ctor: "ProtoDecode", Var: "nil-value", Loc: li, In: ""})
			if len(loc) == 2 {
				for _, ct := range []string{"ZeroAddress", "ZeroInternal", "OneInternal"} {
					cs := c16ClassCase{Ctor: ct, Loc: li}
					divs := c16ClassExec(cs, p)
					var a common.Address
					if vx.Guard(func() { a, _, _ = c16Build(cs) }) == "" && !c16RefInZoneQuai(a.Bytes(), loc) {
						divs = append(divs, c16Div{ct + ":not-in-zone-quai", fmt.Sprintf("%s(%s) = %x is not an in-zone Quai address", ct, c16LocName(loc), a.Bytes())})
					}
					report(cs, divs)
				}
			}
		}
		// --- derived constructors: hash-derived bytes, classification must still follow them ---
		senders := [][]byte{append([]byte{pre, 0x00}, c16Tail(2, 18)...), append([]byte{pre ^ 0x10, 0x80}, c16Tail(1, 18)...)}
		for n := uint64(0); n < c16DerivedN; n++ {
			item++
			if !c.Mine(item) {
				continue
			}
			if n%512 == 0 && c.Expired() {
				p.Incomplete("deadline in derived constructors at node " + c16LocName(loc))
				return
			}
			for _, ct := range c16DerivedCtors {
				run(c16ClassCase{Ctor: ct, Loc: li, In: c16Hex(senders[n%2]), N: n})
			}
		}
		// --- address grinding ---
		gn := uint64(12)
		vars := []string{"pre-fork", "post-fork", "low-gas"}
		if len(loc) != 2 {
			gn = 1 // never succeeds outside a zone: one call per variant shows the error class
		}
		for n := uint64(0); n < gn; n++ {
			for vi, v := range vars {
				item++
				if !c.Mine(item) {
					continue
				}
				cs := c16ClassCase{Ctor: "GrindContract", Var: v, Loc: li, In: c16Hex(senders[(int(n)+vi)%2]), N: n}
				report(cs, c16ClassExec(cs, p))
			}
		}
	}
	if c.Shard == 0 && phase == 1 {
		// how much of the first-byte x ledger space the hash-derived constructors reached
		for _, ct := range c16DerivedCtors {
			seen := map[[2]byte]bool{}
			for n := uint64(0); n < c16DerivedN; n++ {
				a, _, _ := c16Build(c16ClassCase{Ctor: ct, Loc: []int{0, 0}, In: c16Hex(append([]byte{0x00, 0x00}, c16Tail(2, 18)...)), N: n})
				b := a.Bytes()
				seen[[2]byte{b[0], b[1] >> 7}] = true
			}
			p.Bound("derived_first_byte_x_ledger_classes_reached/"+ct, fmt.Sprintf("%d of 512", len(seen)))
		}
	}
	if c.Shard == 0 {
		p.States += int64(len(locs)) * 256 * int64(len(c16LedgerBytes)) * 3
	}
}
