package main

// C08 part (a): acceptance threshold. Boundary grid difficulty x PoW hash driven through the
// injected engine into the REAL verifySeal / CalcOrder / CheckIfValidWorkShare /
// UncleWorkShareClassification / VerifyUncles, compared with the predicate of the statement:
//
//	accepted  =>  d > 0  and  hash <= floor(2^256 / d)              (block)
//	valid share => d > 0 and hash <= floor(2^256 / d) * 2^k          (pre-fork work share, k = WorkSharesThresholdDiff)
//	valid share => sd > 0 and hash <= floor(2^256 / sd)              (post-fork: sd = declared share difficulty)
//
// Only the safety direction is a violation; an over-rejection is counted (outcome class) but the
// statement does not forbid it.

import (
	"fmt"
	"math/big"
	"sort"
	"sync/atomic"

	"github.com/dominant-strategies/go-quai/common"
	"github.com/dominant-strategies/go-quai/core"
	"github.com/dominant-strategies/go-quai/core/types"
	"github.com/dominant-strategies/go-quai/params"
	"github.com/dominant-strategies/go-quai/verifshim/vx"
)

type c08ACase struct {
	Regime string `json:"regime"`
	Fn     string `json:"fn"`     // verifySeal | calcOrder | workshare | classify | verifyUncles | classify-donor
	Engine string `json:"engine"` // progpow | kawpow | sha_btc | sha_bch | scrypt
	D      string `json:"difficulty"`
	H      string `json:"hash,omitempty"`
	Nonce  uint32 `json:"donor_nonce,omitempty"`
}

var c08Two256 = new(big.Int).Lsh(big.NewInt(1), 256)
var c08MaxHash = new(big.Int).Sub(c08Two256, big.NewInt(1))

func c08Hex(b *big.Int) string {
	if b == nil {
		return "nil"
	}
	if b.Sign() < 0 {
		return "-0x" + new(big.Int).Neg(b).Text(16)
	}
	return "0x" + b.Text(16)
}

func c08ParseBig(s string) *big.Int {
	if s == "nil" {
		return nil
	}
	neg := false
	if len(s) > 0 && s[0] == '-' {
		neg, s = true, s[1:]
	}
	b, _ := new(big.Int).SetString(s[2:], 16)
	if neg {
		b.Neg(b)
	}
	return b
}

// c08Difficulties: boundary menu (quick) or every 2^k-1,2^k,2^k+1 for k=0..258 plus 0..64 (thorough).
func c08Difficulties(thorough bool) []*big.Int {
	set := map[string]*big.Int{}
	add := func(b *big.Int) {
		if b.Sign() >= 0 {
			set[b.Text(16)] = b
		}
	}
	pow := func(k uint) *big.Int { return new(big.Int).Lsh(big.NewInt(1), k) }
	for _, v := range []int64{0, 1, 2, 3, 4, 5, 7, 255, 256, 257, 999, 1000, 1001} {
		add(big.NewInt(v))
	}
	ks := []uint{8, 16, 31, 32, 63, 64, 65, 127, 128, 192, 254, 255, 256, 257}
	if thorough {
		ks = nil
		for k := uint(1); k <= 258; k++ {
			ks = append(ks, k)
		}
		for v := int64(0); v <= 64; v++ {
			add(big.NewInt(v))
		}
	}
	for _, k := range ks {
		add(new(big.Int).Sub(pow(k), big.NewInt(1)))
		add(pow(k))
		add(new(big.Int).Add(pow(k), big.NewInt(1)))
	}
	out := make([]*big.Int, 0, len(set))
	for _, b := range set {
		out = append(out, b)
	}
	sort.Slice(out, func(i, j int) bool { return out[i].Cmp(out[j]) < 0 })
	return out
}

// c08Hashes: boundary hashes around the thresholds ts (clipped to the 256-bit hash domain).
func c08Hashes(ts ...*big.Int) []*big.Int {
	set := map[string]*big.Int{}
	add := func(b *big.Int) {
		if b.Sign() >= 0 && b.Cmp(c08MaxHash) <= 0 {
			set[b.Text(16)] = b
		}
	}
	for _, v := range []int64{0, 1, 2} {
		add(big.NewInt(v))
	}
	add(new(big.Int).Lsh(big.NewInt(1), 255))
	add(new(big.Int).Sub(c08MaxHash, big.NewInt(1)))
	add(c08MaxHash)
	for _, t := range ts {
		for _, dlt := range []int64{-2, -1, 0, 1, 2} {
			add(new(big.Int).Add(t, big.NewInt(dlt)))
		}
		add(new(big.Int).Rsh(t, 1))
		add(new(big.Int).Lsh(t, 1))
	}
	out := make([]*big.Int, 0, len(set))
	for _, b := range set {
		out = append(out, b)
	}
	sort.Slice(out, func(i, j int) bool { return out[i].Cmp(out[j]) < 0 })
	return out
}

func c08ModelBlock(d, h *big.Int) bool {
	return d != nil && d.Sign() > 0 && h.Cmp(new(big.Int).Div(c08Two256, d)) <= 0
}

// c08SetHash plants the chosen "kernel output" where the injected engine of that header reads it.
func c08SetHash(wh *types.WorkObjectHeader, h *big.Int) {
	if wh.AuxPow() != nil && wh.AuxPow().Header() != nil && wh.AuxPow().PowID() == types.Kawpow {
		wh.AuxPow().Header().SetMixHash(common.BigToHash(h))
		return
	}
	wh.SetMixHash(common.BigToHash(h))
}

type c08AResult struct {
	class string // outcome class
	bad   string // violation description ("" = fine)
	key   string
}

// c08EvalA executes one grid case on the real code and compares it with the model.
func c08EvalA(w *c08World, cs c08ACase) (res c08AResult) {
	env := w.Env
	d := c08ParseBig(cs.D)
	var h *big.Int
	if cs.H != "" {
		h = c08ParseBig(cs.H)
	}
	var base *types.WorkObject
	switch cs.Engine {
	case "progpow":
		base = w.Prog
	case "kawpow":
		base = w.Kaw
	}
	mk := func() *types.WorkObject {
		wo := types.CopyWorkObject(base)
		if d == nil {
			// a nil difficulty cannot come off the wire (ProtoDecode requires it); skipped by the enumerator
			return wo
		}
		wo.WorkObjectHeader().SetDifficulty(new(big.Int).Set(d))
		c08SetHash(wo.WorkObjectHeader(), h)
		return wo
	}
	env.PurgeCaches()
	switch cs.Fn {
	case "verifySeal":
		wo := mk()
		var ph common.Hash
		var err error
		if perr := vx.Guard(func() { ph, err = env.VerifySeal(wo.WorkObjectHeader()) }); perr != "" {
			return c08AResult{class: "panic:" + c08PanicSite(perr)}
		}
		model := c08ModelBlock(d, h)
		switch {
		case err == nil && !model:
			return c08AResult{class: "ACCEPT-above-target", key: "verifySeal:" + cs.Engine + ":accepts-above-target",
				bad: fmt.Sprintf("verifySeal accepted difficulty=%s powHash=%s although floor(2^256/d)=%s", cs.D, cs.H, c08TargetStr(d))}
		case err == nil && ph != common.BigToHash(h):
			return c08AResult{class: "ACCEPT-wrong-hash", key: "verifySeal:" + cs.Engine + ":returns-other-hash",
				bad: fmt.Sprintf("verifySeal returned pow hash %s, the kernel produced %s", ph.Hex(), cs.H)}
		case err == nil:
			return c08AResult{class: "accept"}
		case model:
			return c08AResult{class: "overreject:" + err.Error()}
		default:
			return c08AResult{class: "reject:" + err.Error()}
		}
	case "calcOrder":
		wo := mk()
		var ord int
		var ent *big.Int
		var err error
		if perr := vx.Guard(func() { ent, ord, err = env.CalcOrder(wo) }); perr != "" {
			return c08AResult{class: "panic:" + c08PanicSite(perr)}
		}
		model := c08ModelBlock(d, h)
		switch {
		case err == nil && !model:
			return c08AResult{class: "ACCEPT-above-target", key: "calcOrder:" + cs.Engine + ":accepts-above-target",
				bad: fmt.Sprintf("CalcOrder returned order %d (entropy %v) for difficulty=%s powHash=%s although floor(2^256/d)=%s", ord, ent, cs.D, cs.H, c08TargetStr(d))}
		case err == nil:
			return c08AResult{class: fmt.Sprintf("accept:order%d", ord)}
		case model:
			return c08AResult{class: "overreject:" + err.Error()}
		default:
			return c08AResult{class: "reject:" + err.Error()}
		}
	case "workshare", "classify":
		wo := mk()
		wh := wo.WorkObjectHeader()
		var v types.WorkShareValidity
		if perr := vx.Guard(func() {
			if cs.Fn == "workshare" {
				v = env.WorkShareValidity(wh)
			} else {
				v = env.Classify(wh)
			}
		}); perr != "" {
			return c08AResult{class: "panic:" + c08PanicSite(perr)}
		}
		// thresholds implied by the declared fields
		var shareT *big.Int
		if d.Sign() > 0 {
			if wh.PrimeTerminusNumber().Uint64() < params.KawPowForkBlock {
				shareT = new(big.Int).Lsh(new(big.Int).Div(c08Two256, d), uint(params.WorkSharesThresholdDiff))
			} else {
				sd := core.CalculateKawpowShareDiff(wh)
				if sd != nil && sd.Sign() > 0 {
					shareT = new(big.Int).Div(c08Two256, sd)
				}
			}
		}
		name := map[types.WorkShareValidity]string{types.Valid: "valid", types.Sub: "sub", types.Invalid: "invalid", types.Block: "block"}[v]
		switch v {
		case types.Block:
			if !c08ModelBlock(d, h) {
				return c08AResult{class: "BLOCK-above-target", key: cs.Fn + ":" + cs.Engine + ":block-above-target",
					bad: fmt.Sprintf("%s classified difficulty=%s powHash=%s as a sealed block although floor(2^256/d)=%s", cs.Fn, cs.D, cs.H, c08TargetStr(d))}
			}
		case types.Valid:
			if shareT == nil || h.Cmp(shareT) > 0 {
				return c08AResult{class: "VALID-above-share-target", key: cs.Fn + ":" + cs.Engine + ":share-above-target",
					bad: fmt.Sprintf("%s classified difficulty=%s powHash=%s as a valid work share although the share target implied by the header is %s", cs.Fn, cs.D, cs.H, c08Hex(shareT))}
			}
		}
		return c08AResult{class: name}
	}
	return c08AResult{class: "harness:unknown-fn"}
}

func c08TargetStr(d *big.Int) string {
	if d == nil || d.Sign() <= 0 {
		return "undefined (d<=0)"
	}
	return c08Hex(new(big.Int).Div(c08Two256, d))
}

func c08RunA(c *vx.Ctx, w *c08World, idx *int64) {
	p := c.Part("threshold")
	ds := c08Difficulties(c.Thorough())
	p.Bound("difficulties", len(ds))
	p.Bound("hash_menu", "0,1,2,2^255,2^256-2,2^256-1 and t-2..t+2,t/2,2t for t = block target and every share target")
	engines := []string{"progpow"}
	if w.Regime == "R2" {
		engines = append(engines, "kawpow")
	}
	reported := map[string]bool{}
	for _, eng := range engines {
		for _, fn := range []string{"verifySeal", "calcOrder", "workshare", "classify"} {
			for _, d := range ds {
				var ts []*big.Int
				if d.Sign() > 0 {
					t := new(big.Int).Div(c08Two256, d)
					ts = append(ts, t, new(big.Int).Lsh(t, uint(params.WorkSharesThresholdDiff)), new(big.Int).Lsh(t, uint(w.Env.WorkShareThresholdCfg())))
				}
				for _, h := range c08Hashes(ts...) {
					*idx++
					atomic.AddInt64(&c08Progress, 1)
					if !c.Mine(*idx) {
						continue
					}
					if c.Expired() {
						p.Incomplete("deadline")
						return
					}
					cs := c08ACase{Regime: w.Regime, Fn: fn, Engine: eng, D: c08Hex(d), H: c08Hex(h)}
					r := c08EvalA(w, cs)
					p.Transitions++
					p.Traces++
					p.Outcome(w.Regime + ":" + fn + ":" + eng + ":" + c08ShortClass(r.class))
					if r.bad != "" && !reported[r.key] {
						reported[r.key] = true
						if c.Confirm(r.bad, func() string { return c08EvalA(w, cs).key }) {
							c.Violate("threshold", r.key, r.bad, c08Replay{Part: "threshold", A: &cs})
						}
					} else if r.bad == "" && r.class == "accept" {
						p.Sample(cs)
					}
					if len(r.class) > 6 && r.class[:6] == "panic:" && !reported["note:"+fn+r.class] {
						reported["note:"+fn+r.class] = true
						p.Note("panic inside %s at %s - nothing is accepted, so not a C08 violation (robustness, see C15); example input under bounds.panic_example", fn, r.class[6:])
						p.Bound("panic_example:"+fn+"@"+r.class[6:], cs)
					}
				}
			}
		}
	}
	c08RunADonor(c, w, p, idx, reported)
	c08RunAUncles(c, w, p, idx, reported)
}

func c08ShortClass(s string) string {
	if len(s) > 60 {
		return s[:60]
	}
	return s
}

// ---- SHA / Scrypt shares: the PoW hash comes from the REAL kernel over the donor header, so the
// grid fixes the hash (a handful of donor nonces) and moves the declared share difficulty around
// q = floor(2^256/hash).
func c08EvalADonor(w *c08World, cs c08ACase) c08AResult {
	var kind types.PowID
	switch cs.Engine {
	case "sha_btc":
		kind = types.SHA_BTC
	case "sha_bch":
		kind = types.SHA_BCH
	case "scrypt":
		kind = types.Scrypt
	}
	var base *types.WorkObjectHeader
	for _, u := range w.Kaw.Uncles() {
		if u.AuxPow() != nil && u.AuxPow().PowID() == kind && !c08IsExt(u) {
			base = u
		}
	}
	if base == nil {
		return c08AResult{class: "harness:no-baseline-uncle"}
	}
	ws := types.CopyWorkObjectHeader(base)
	ws.AuxPow().Header().SetNonce(cs.Nonce)
	h := new(big.Int).SetBytes(ws.AuxPow().Header().PowHash().Bytes())
	d := c08ParseBig(cs.D)
	dc := types.NewPowShareDiffAndCount(d, big.NewInt(1), big.NewInt(0))
	if kind == types.Scrypt {
		dc = types.NewPowShareDiffAndCount(d, ws.ScryptDiffAndCount().Count(), ws.ScryptDiffAndCount().Uncled())
		ws.SetScryptDiffAndCount(dc)
	} else {
		dc = types.NewPowShareDiffAndCount(d, ws.ShaDiffAndCount().Count(), ws.ShaDiffAndCount().Uncled())
		ws.SetShaDiffAndCount(dc)
	}
	var v types.WorkShareValidity
	if perr := vx.Guard(func() { v = w.Env.Classify(ws) }); perr != "" {
		return c08AResult{class: "panic:" + c08PanicSite(perr)}
	}
	if v == types.Valid || v == types.Block {
		if d == nil || d.Sign() <= 0 || h.Cmp(new(big.Int).Div(c08Two256, d)) > 0 {
			return c08AResult{class: "VALID-above-share-target", key: "classify:" + cs.Engine + ":share-above-target",
				bad: fmt.Sprintf("UncleWorkShareClassification returned %v for a %s share with declared share difficulty %s whose donor PoW hash is %s > floor(2^256/d)=%s (donor nonce %d)", v, cs.Engine, cs.D, c08Hex(h), c08TargetStr(d), cs.Nonce)}
		}
		return c08AResult{class: "valid"}
	}
	if d != nil && d.Sign() > 0 && h.Cmp(new(big.Int).Div(c08Two256, d)) < 0 {
		return c08AResult{class: "overreject"}
	}
	return c08AResult{class: "invalid"}
}

func c08RunADonor(c *vx.Ctx, w *c08World, p *vx.Part, idx *int64, reported map[string]bool) {
	if w.Regime != "R2" {
		return
	}
	nn := uint32(4)
	if c.Thorough() {
		nn = 24
	}
	p.Bound("donor_nonces_per_kind", nn)
	for _, eng := range []string{"sha_btc", "sha_bch", "scrypt"} {
		for n := uint32(0); n < nn; n++ {
			// hash of this donor nonce
			probe := c08EvalProbeHash(w, eng, n)
			if probe == nil {
				c.HarnessError("no baseline uncle for " + eng)
				return
			}
			q := new(big.Int).Div(c08Two256, probe)
			var ds []*big.Int
			for _, v := range []int64{0, 1, 2, 3} {
				ds = append(ds, big.NewInt(v))
			}
			for _, dlt := range []int64{-2, -1, 0, 1, 2} {
				if x := new(big.Int).Add(q, big.NewInt(dlt)); x.Sign() >= 0 {
					ds = append(ds, x)
				}
			}
			ds = append(ds, new(big.Int).Lsh(q, 1), new(big.Int).Rsh(q, 1), new(big.Int).Lsh(big.NewInt(1), 255), c08Two256, new(big.Int).Add(c08Two256, big.NewInt(1)))
			for _, d := range ds {
				*idx++
				atomic.AddInt64(&c08Progress, 1)
				if !c.Mine(*idx) {
					continue
				}
				if c.Expired() {
					p.Incomplete("deadline")
					return
				}
				cs := c08ACase{Regime: w.Regime, Fn: "classify-donor", Engine: eng, D: c08Hex(d), Nonce: n}
				r := c08EvalADonor(w, cs)
				p.Transitions++
				p.Traces++
				p.Outcome(w.Regime + ":classify-donor:" + eng + ":" + c08ShortClass(r.class))
				if r.bad != "" && !reported[r.key] {
					reported[r.key] = true
					if c.Confirm(r.bad, func() string { return c08EvalADonor(w, cs).key }) {
						c.Violate("threshold", r.key, r.bad, c08Replay{Part: "threshold", A: &cs})
					}
				}
			}
		}
	}
}

func c08EvalProbeHash(w *c08World, eng string, n uint32) *big.Int {
	kind := map[string]types.PowID{"sha_btc": types.SHA_BTC, "sha_bch": types.SHA_BCH, "scrypt": types.Scrypt}[eng]
	for _, u := range w.Kaw.Uncles() {
		if u.AuxPow() != nil && u.AuxPow().PowID() == kind && !c08IsExt(u) {
			ws := types.CopyWorkObjectHeader(u)
			ws.AuxPow().Header().SetNonce(n)
			return new(big.Int).SetBytes(ws.AuxPow().Header().PowHash().Bytes())
		}
	}
	return nil
}

// ---- VerifyUncles: an uncle is ACCEPTED as a work share when the block that carries it passes the
// real VerifyUncles. Grid: the PoW hash of one included uncle.
func c08EvalAUncle(w *c08World, cs c08ACase) c08AResult {
	base, eng := w.Prog, cs.Engine
	if eng == "kawpow" {
		base = w.Kaw
	}
	blk := types.CopyWorkObject(base)
	h := c08ParseBig(cs.H)
	var tgt *types.WorkObjectHeader
	uncles := make([]*types.WorkObjectHeader, 0)
	for _, u := range blk.Uncles() {
		u = types.CopyWorkObjectHeader(u)
		isK := u.AuxPow() != nil && u.AuxPow().PowID() == types.Kawpow
		if tgt == nil && ((eng == "kawpow" && isK) || (eng == "progpow" && u.AuxPow() == nil)) {
			tgt = u
			c08SetHash(u, h)
		}
		uncles = append(uncles, u)
	}
	if tgt == nil {
		return c08AResult{class: "harness:no-baseline-uncle"}
	}
	blk.Body().SetUncles(uncles)
	w.Env.PurgeCaches()
	var err error
	if perr := vx.Guard(func() { err = w.Env.VerifyUncles(blk) }); perr != "" {
		return c08AResult{class: "panic:" + c08PanicSite(perr)}
	}
	d := tgt.Difficulty()
	var shareT *big.Int
	if tgt.PrimeTerminusNumber().Uint64() < params.KawPowForkBlock {
		shareT = new(big.Int).Lsh(new(big.Int).Div(c08Two256, d), uint(params.WorkSharesThresholdDiff))
	} else if sd := core.CalculateKawpowShareDiff(tgt); sd != nil && sd.Sign() > 0 {
		shareT = new(big.Int).Div(c08Two256, sd)
	}
	if err == nil {
		if shareT == nil || h.Cmp(shareT) > 0 {
			return c08AResult{class: "ACCEPT-share-above-target", key: "verifyUncles:" + map[string]string{"R0": "prefork", "R2": "postfork"}[w.Regime] + ":" + eng + ":share-threshold-unchecked",
				bad: fmt.Sprintf("VerifyUncles (%s, %s uncle) accepted a block whose uncle has difficulty=%s and powHash=%s; the work-share target implied by the uncle is %s (block target %s) - the uncle is neither a sealed block nor a valid work share", w.Regime, eng, c08Hex(d), cs.H, c08Hex(shareT), c08TargetStr(d))}
		}
		if c08ModelBlock(d, h) {
			return c08AResult{class: "accept:uncle-block"}
		}
		return c08AResult{class: "accept:uncle-share"}
	}
	return c08AResult{class: "reject:" + err.Error()}
}

func c08RunAUncles(c *vx.Ctx, w *c08World, p *vx.Part, idx *int64, reported map[string]bool) {
	engines := []string{"progpow"}
	if w.Regime == "R2" {
		engines = append(engines, "kawpow")
	}
	for _, eng := range engines {
		base := w.Prog
		if eng == "kawpow" {
			base = w.Kaw
		}
		t := new(big.Int).Div(c08Two256, base.Difficulty())
		ts := []*big.Int{t, new(big.Int).Lsh(t, uint(params.WorkSharesThresholdDiff)), new(big.Int).Lsh(t, uint(w.Env.WorkShareThresholdCfg()))}
		for _, u := range base.Uncles() {
			if sd := core.CalculateKawpowShareDiff(u); sd != nil && sd.Sign() > 0 {
				ts = append(ts, new(big.Int).Div(c08Two256, sd))
			}
		}
		for _, h := range c08Hashes(ts...) {
			*idx++
			atomic.AddInt64(&c08Progress, 1)
			if !c.Mine(*idx) {
				continue
			}
			cs := c08ACase{Regime: w.Regime, Fn: "verifyUncles", Engine: eng, D: c08Hex(base.Difficulty()), H: c08Hex(h)}
			r := c08EvalAUncle(w, cs)
			p.Transitions++
			p.Traces++
			p.Outcome(w.Regime + ":verifyUncles:" + eng + ":" + c08ShortClass(r.class))
			if r.bad != "" && !reported[r.key] {
				reported[r.key] = true
				if c.Confirm(r.bad, func() string { return c08EvalAUncle(w, cs).key }) {
					c.Violate("threshold", r.key, r.bad, c08Replay{Part: "threshold", A: &cs})
				}
			}
		}
	}
}
