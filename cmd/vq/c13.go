package main

// C13 — mining rewards and lockups pay out exactly once, no earlier, no more.
//
// Part "rewards": all assignments of miner kinds to the first K blocks of a fixed 24-block order
// pattern on a real prime/region/zone node (each block: Quai miner with lock byte 0/1/2, Qi miner,
// or Quai miner plus a work share of another miner that the next block includes). A temporal
// monitor over the whole history checks:
//   formula:  the coinbase ETXs a block emits are exactly the protocol formula evaluated on the
//             rewarded block (3 back) and the shares of that height, recomputed from chain data;
//   once:     every executed coinbase ETX produces exactly one credit, at exactly
//             execution height + lock depth, of exactly the lockup-adjusted amount (less the
//             account-creation fee on first credit) — decided from per-block balance deltas of
//             miner accounts that have no other activity; Qi rewards appear as outputs of exactly
//             the adjusted amount's denominations with exactly that lock height;
//   unique:   re-including an already included share (inside and beyond the inclusion window) is
//             rejected.

import (
	"fmt"
	"math/big"
	"os"
	"sort"
	"strings"
	"time"

	"github.com/dominant-strategies/go-quai/common"
	"github.com/dominant-strategies/go-quai/consensus/misc"
	"github.com/dominant-strategies/go-quai/core"
	"github.com/dominant-strategies/go-quai/core/types"
	"github.com/dominant-strategies/go-quai/params"
	"github.com/dominant-strategies/go-quai/verifshim/vx"
)

func init() {
	register(vx.CheckSpec{ID: "C13", Shards: 16, QuickBudget: 110 * time.Second, ThoroughBudg: 25 * time.Minute, Run: runC13, ReplayFn: replayC13})
}

// miner kinds per block
var c13Kinds = []string{"quai-lock0", "quai-lock1", "quai-lock2", "qi", "quai-lock0+share"}

const c13Pattern = "zzpzzpzpzpzpzpzzzzzzzzzzzzz"

// the assigned blocks start after the first prime block (Qi coinbases need the controller)
const c13Offset = 4

type c13Uni struct {
	m  [3]*core.VKey // dedicated Quai miner keys (no other activity)
	qi *core.VKey
}

func c13Universe() *c13Uni {
	u := &c13Uni{}
	for i := range u.m {
		u.m[i] = core.VGrindKey(10+i, 0, 0, false)
	}
	u.qi = core.VGrindKey(10, 0, 0, true)
	return u
}

type c13Credit struct {
	addr   common.Address
	height uint64
	amount *big.Int
	id     string
}

// c13Run executes one history; returns (key, desc, class).
func c13Run(kinds []int, dupShare int) (string, string, string) {
	u := c13Universe()
	s, err := newScen(3, false, nil)
	if err != nil {
		return "harness", err.Error(), ""
	}
	defer s.close()
	s.forkAll = c13Siblings
	var pendingShare *types.WorkObjectHeader
	var includedShare *types.WorkObjectHeader
	includedAt := uint64(0)
	bal := map[common.Address]*big.Int{}
	exists := map[common.Address]bool{}
	miners := []common.Address{u.m[0].Addr, u.m[1].Addr, u.m[2].Addr}
	for _, a := range miners {
		bal[a] = new(big.Int)
	}
	var expected []c13Credit
	qiExpect := map[string]uint64{} // etx hash -> expected lock height
	for i := 0; i < len(c13Pattern); i++ {
		kind := 0
		assigned := i >= c13Offset && i < c13Offset+len(kinds)
		if assigned {
			kind = kinds[i-c13Offset]
		}
		o := core.VBuildOpts{Fill: true}
		switch c13Pattern[i] {
		case 'z':
			o.Order = 2
		case 'r':
			o.Order = 1
		case 'p':
			o.Order = 0
		}
		cb := u.m[2].Addr // neutral miner of the tail
		if assigned {
			cb = u.m[0].Addr
		}
		switch c13Kinds[kind] {
		case "quai-lock1":
			o.LockByte = 1
		case "quai-lock2":
			o.LockByte = 2
		case "qi":
			o.QiMiner = true
			cb = u.qi.Addr
		case "quai-lock0+share":
			// a share by miner m1 on the current head; the block built next includes it
			ws, err := s.n.VMakeWorkShare(u.m[1].Addr, 0, int64(i))
			if err != nil {
				return "harness", fmt.Sprintf("work share at step %d: %v", i, err), ""
			}
			pendingShare = ws
		}
		o.Coinbase = &cb
		// duplicate-share attempt: offer a block that lists the already included share again
		if includedShare != nil && dupShare > 0 && s.n.Heads[2].NumberU64(2)+1 == includedAt+uint64(dupShare) {
			ish := includedShare
			dup, err := s.n.Build(core.VBuildOpts{Order: 2, Fill: true, Coinbase: &cb, PreSeal: func(wo *types.WorkObject) {
				wo.Body().SetUncles(append(wo.Body().Uncles(), ish))
				wo.Header().SetUncleHash(types.CalcUncleHash(wo.Body().Uncles()))
			}})
			if err != nil {
				return "harness", "dup build: " + err.Error(), ""
			}
			if r := s.n.Append(dup); r.Err() == nil {
				return fmt.Sprintf("unique:share-included-again:+%d", dupShare), fmt.Sprintf("kinds %v: a block at height %d that lists the work share already included at height %d is accepted", c13Names(kinds), dup.NumberU64(2), includedAt), ""
			}
		}
		if os.Getenv("VQ_TRACE") != "" {
			fmt.Printf("  c13 step %d kind=%s order=%d head=%v diff=%v\n", i, c13Kinds[kind], o.Order, s.n.Heads[2].NumberArray(), s.n.Heads[2].Difficulty())
		}
		blk, err := s.mine(o)
		if err != nil {
			return "own-block-rejected", fmt.Sprintf("kinds %v step %d (%s): %v", c13Names(kinds), i, c13Kinds[kind], err), ""
		}
		h := blk.NumberU64(2)
		if pendingShare != nil {
			found := false
			for _, un := range blk.Uncles() {
				if un.Hash() == pendingShare.Hash() {
					found = true
				}
			}
			if found {
				includedShare, includedAt = pendingShare, h
				pendingShare = nil
			} else if h > pendingShare.NumberU64()+3 {
				pendingShare = nil
			}
		}
		// ---- formula: coinbase ETXs emitted by this block
		if k, d := c13CheckFormula(s, blk); k != "" {
			return k, fmt.Sprintf("kinds %v, block %d: %s", c13Names(kinds), h, d), ""
		}
		// ---- executed coinbase ETXs -> expected credits
		for _, t := range blk.Transactions() {
			if t.Type() != types.ExternalTxType || !types.IsCoinBaseTx(t) {
				continue
			}
			if len(t.Data()) != 1+common.HashLength {
				continue
			}
			lb := t.Data()[0]
			depth := params.LockupByteToBlockDepth[lb]
			if t.To().IsInQuaiLedgerScope() {
				expected = append(expected, c13Credit{*t.To(), h + depth, params.CalculateCoinbaseValueWithLockup(t.Value(), lb, h+depth), fmt.Sprintf("%x", t.Hash().Bytes()[:6])})
			} else if blk.PrimeTerminusNumber().Uint64() >= params.ControllerKickInBlock { // Qi rewards are honoured once the controller is active
				qiExpect[string(t.Hash().Bytes())] = h + depth
				// outputs must exist right now with exactly that lock and sum to the adjusted value
				want := params.CalculateCoinbaseValueWithLockup(t.Value(), lb, h)
				sum := new(big.Int)
				utxos, _ := core.VScanUtxos(s.n.DB[2])
				for _, x := range utxos {
					if x.Hash == t.Hash() {
						sum.Add(sum, types.Denominations[x.Entry.Denomination])
						if x.Entry.Lock == nil || x.Entry.Lock.Uint64() != h+depth {
							return "qi-reward:lock-height", fmt.Sprintf("kinds %v: Qi reward output %v of coinbase executed at %d has lock %v, expected %d", c13Names(kinds), x, h, x.Entry.Lock, h+depth), ""
						}
						if string(x.Entry.Address) != string(t.To().Bytes()) {
							return "qi-reward:owner", fmt.Sprintf("Qi reward output %v not owned by the miner", x), ""
						}
					}
				}
				if sum.Cmp(want) > 0 {
					return "qi-reward:over-credit", fmt.Sprintf("kinds %v: Qi coinbase of %v qits produced outputs worth %v", c13Names(kinds), want, sum), ""
				}
				if sum.Cmp(want) != 0 {
					return "qi-reward:amount", fmt.Sprintf("kinds %v: Qi coinbase of %v qits produced outputs worth %v", c13Names(kinds), want, sum), ""
				}
			}
		}
		// ---- balance deltas of the dedicated miner accounts
		for _, a := range miners {
			nb := s.n.VBalance(a)
			delta := new(big.Int).Sub(nb, bal[a])
			bal[a] = nb
			want := new(big.Int)
			var ids []string
			for _, e := range expected {
				if e.addr.Equal(a) && e.height == h {
					amt := new(big.Int).Set(e.amount)
					if !exists[a] {
						fee := new(big.Int).Mul(new(big.Int).SetUint64(params.CallNewAccountGas(s.n.VParentStateSize(blk))), big.NewInt(params.InitialBaseFee))
						if amt.Cmp(fee) >= 0 {
							amt.Sub(amt, fee)
							exists[a] = true
						} else {
							amt.SetInt64(0)
						}
					}
					want.Add(want, amt)
					ids = append(ids, e.id)
				}
			}
			if delta.Cmp(want) != 0 {
				cls := "credit:amount"
				if want.Sign() == 0 {
					cls = "credit:unexpected"
				} else if delta.Sign() == 0 {
					cls = "credit:missing"
				}
				return cls, fmt.Sprintf("kinds %v: at height %d miner %x balance changed by %v, the rewards unlocking now %v amount to %v", c13Names(kinds), h, a.Bytes()[:4], delta, ids, want), ""
			}
		}
	}
	// everything that should have unlocked within the history did (no missing credit is possible
	// above because deltas are compared at every height); classify the history
	nq := 0
	for _, e := range expected {
		if e.height <= s.n.Heads[2].NumberU64(2) {
			nq++
		}
	}
	return "", "", fmt.Sprintf("quai-credits=%d,qi-rewards=%d,share=%v", nq, len(qiExpect), includedShare != nil)
}

// c13CheckFormula recomputes the coinbase ETXs block b must emit from chain data.
func c13CheckFormula(s *scen, b *types.WorkObject) (string, string) {
	h := b.NumberU64(2)
	var got []*types.Transaction
	for _, e := range b.OutboundEtxs() {
		if e.EtxType() == types.CoinbaseType {
			got = append(got, e)
		}
	}
	if h <= uint64(params.WorkSharesInclusionDepth) {
		if len(got) != 0 {
			return "formula:early-coinbase", fmt.Sprintf("block %d emits %d coinbase ETXs before the inclusion depth", h, len(got))
		}
		return "", ""
	}
	byNum := map[uint64]*types.WorkObject{}
	for _, x := range s.blocks {
		byNum[x.NumberU64(2)] = x
	}
	depth := uint64(params.WorkSharesInclusionDepth)
	target := byNum[h-depth]
	if target == nil {
		return "harness", "target block missing"
	}
	pt := s.n.VPrimeTerminus(b)
	if pt == nil {
		return "harness", "prime terminus missing"
	}
	rate := pt.ExchangeRate()
	type share struct {
		wh      *types.WorkObjectHeader
		entropy *big.Int
	}
	tEnt := common.IntrinsicLogEntropy(target.WorkObjectHeader().MixHash())
	shares := []share{{target.WorkObjectHeader(), tEnt}}
	total := new(big.Int).Set(tEnt)
	for x := h - depth; x <= h; x++ { // the rewarded block itself may list sibling shares
		blk := byNum[x]
		if x == h {
			blk = b
		}
		for _, un := range blk.Uncles() {
			if un.NumberU64() != h-depth {
				continue
			}
			// a work share weighs by its own pow hash; an uncle that meets the block target by the target
			powInt := new(big.Int).SetBytes(un.MixHash().Bytes())
			tgt := new(big.Int).Div(common.Big2e256, un.Difficulty())
			var e *big.Int
			if powInt.Cmp(tgt) > 0 {
				e = common.IntrinsicLogEntropy(un.MixHash())
			} else {
				e = common.IntrinsicLogEntropy(common.BytesToHash(tgt.Bytes()))
			}
			shares = append(shares, share{un, e})
			total.Add(total, e)
		}
	}
	reward := misc.CalculateQuaiReward(target.WorkObjectHeader(), target.Difficulty(), rate)
	reward.Add(reward, target.AvgTxFees())
	reward.Add(reward, new(big.Int).Div(target.TotalFees(), common.Big2))
	if len(got) != len(shares) {
		return "formula:count", fmt.Sprintf("block %d emits %d coinbase ETXs for %d shares at height %d", h, len(got), len(shares), h-depth)
	}
	sumv := new(big.Int)
	for i, sh := range shares {
		v := new(big.Int).Div(new(big.Int).Mul(reward, sh.entropy), total)
		cb := sh.wh.PrimaryCoinbase()
		if cb.IsInQiLedgerScope() {
			v = misc.QuaiToQi(target, rate, target.Difficulty(), v)
		} else {
			sumv.Add(sumv, v)
		}
		if v.Sign() == 0 {
			v = big.NewInt(1)
		}
		e := got[i]
		wantData := append(append([]byte{}, sh.wh.Data()...), sh.wh.Hash().Bytes()...)
		if e.Value().Cmp(v) != 0 {
			return "formula:amount", fmt.Sprintf("coinbase ETX %d of block %d pays %v, the formula for share %x of the block at height %d gives %v", i, h, e.Value(), sh.wh.Hash().Bytes()[:4], h-depth, v)
		}
		if !e.To().Equal(cb) || string(e.Data()) != string(wantData) {
			return "formula:beneficiary", fmt.Sprintf("coinbase ETX %d of block %d goes to %s data %x, expected %s data %x", i, h, e.To().Hex(), e.Data(), cb.Hex(), wantData)
		}
	}
	if sumv.Cmp(reward) > 0 {
		return "formula:over-issue", fmt.Sprintf("block %d issues %v for a reward of %v", h, sumv, reward)
	}
	return "", ""
}

func c13Names(kinds []int) []string {
	var n []string
	for _, k := range kinds {
		n = append(n, c13Kinds[k])
	}
	return n
}

func c13Assignments(k int) [][]int {
	out := [][]int{}
	var rec func(cur []int)
	rec = func(cur []int) {
		if len(cur) == k {
			out = append(out, append([]int{}, cur...))
			return
		}
		for i := range c13Kinds {
			rec(append(cur, i))
		}
	}
	rec(nil)
	return out
}

func runC13(c *vx.Ctx) {
	core.VScaleParams(core.VR1)
	core.VScaleLockBytes()
	c.Rule = "all assignments of 5 miner kinds to the first K blocks of a fixed 24-block prime/region/zone order pattern x duplicate-share attempts at offsets {none,+1,+2,+3,+4}; temporal monitor (formula, exactly-once credit by balance deltas, Qi reward outputs, share uniqueness); outcome class = credits x Qi rewards x share; every history again with every block mined as two siblings; contracts: all assignments of {plain, X lock 0, X lock 1, Y lock 0} to K blocks plus the histories mined through one contract throughout, claims at three heights, model of the lockup ledger"
	c.Assume("scaled protocol constants: " + fmt.Sprint(core.VScaled) + "; BlocksPerMonth=2 so that lock bytes 1-3 and their reward multiples are legal from block 4")
	c.Assume("contract-held lockups (accumulation per contract/miner/byte/epoch and claims through the lockup precompile) are not driven by this check")
	k := 3
	if c.Thorough() {
		k = 4
	}
	if !c.Wants("rewards") {
		if c.Wants("contracts") {
			c13Contracts(c)
		}
		return
	}
	p := c.Part("rewards")
	p.Bound("assigned_blocks", k)
	p.Bound("pattern", c13Pattern)
	p.Bound("kinds", c13Kinds)
	p.Bound("variants", "plain history; (no duplicate-share offer) every block as two siblings: b1 followed, then reorganised away for b2")
	as := c13Assignments(k)
	dups := []int{0, 1, 2, 3, 4}
	var idx int64
	for _, a := range as {
		hasShare := false
		for _, x := range a {
			if c13Kinds[x] == "quai-lock0+share" {
				hasShare = true
			}
		}
		for _, d := range dups {
			if d > 0 && !hasShare {
				continue
			}
			idx++
			if !c.Mine(idx) {
				continue
			}
			if c.Expired() {
				p.Incomplete("deadline")
				return
			}
			plainKey := ""
			for _, sib := range []bool{false, true} {
				if sib && d > 0 {
					continue // the sibling variant runs on the histories without a duplicate-share offer
				}
				sib := sib
				a, d := a, d
				run := func() (k, ds, cl string) {
					c13Siblings = sib
					defer func() { c13Siblings = false }()
					if perr := vx.Guard(func() { k, ds, cl = c13Run(a, d) }); perr != "" {
						k, ds = "panic:"+vx.PanicSite(perr), fmt.Sprintf("kinds %v dup=%d: node panicked: %s", c13Names(a), d, perr)
					}
					return
				}
				key, desc, cls := run()
				if key == "harness" {
					c.HarnessError(fmt.Sprintf("%v dup=%d siblings=%v: %s", c13Names(a), d, sib, desc))
					return
				}
				p.Transitions += int64(len(c13Pattern))
				p.Traces++
				tag := ""
				if sib {
					tag = "siblings:"
					if key != "" && key == plainKey {
						p.Outcome("siblings:same-failure-as-plain-history")
						continue
					}
				} else {
					plainKey = key
				}
				if key != "" {
					p.Outcome("VIOLATED:" + tag + key)
					if sib {
						desc = "every block first followed as b1, then reorganised away for its sibling b2: " + desc
					}
					if c.Confirm(desc, func() string { k, _, _ := run(); return k }) {
						c.Violate("rewards", tag+key, desc, map[string]any{"kinds": a, "dup": d, "siblings": sib})
					}
					continue
				}
				p.Outcome(fmt.Sprintf("%sdup+%d:%s", tag, d, cls))
				if idx%17 == 0 && !sib {
					p.Sample(map[string]any{"kinds": c13Names(a), "dup_offset": d, "result": cls})
				}
			}
		}
	}
	if c.Shard == 0 {
		p.States = idx
	}
	if c.Wants("contracts") {
		c13Contracts(c)
	}
}

func replayC13(c *vx.Ctx, v vx.Violation) string {
	core.VScaleParams(core.VR1)
	core.VScaleLockBytes()
	raw, _ := jsonMarshal(v.Replay)
	var cs struct {
		Kinds    []int `json:"kinds"`
		Dup      int   `json:"dup"`
		Siblings bool  `json:"siblings"`
	}
	if err := jsonUnmarshal(raw, &cs); err != nil {
		return "bad replay: " + err.Error()
	}
	c13Siblings = cs.Siblings
	defer func() { c13Siblings = false }()
	if v.Part == "contracts" {
		_, d, _ := c13CRun(cs.Kinds)
		return d
	}
	_, d, _ := c13Run(cs.Kinds, cs.Dup)
	return d
}

var _ = sort.Strings
var _ = strings.Join

func init() { register(vx.CheckSpec{ID: "c13dbg", Shards: 1, Run: runC13dbg}) }

func runC13dbg(c *vx.Ctx) {
	core.VScaleParams(core.VR1)
	core.VScaleLockBytes()
	p := c.Part("dbg")
	p.States = 1
	for _, a := range [][]int{{3, 3, 3}} {
		var key, desc, cls string
		perr := vx.Guard(func() { key, desc, cls = c13Run(a, 0) })
		fmt.Println("RESULT", a, key, desc, cls, perr[:min(len(perr), 300)])
	}
}

func init() { register(vx.CheckSpec{ID: "c13dbg2", Shards: 1, Run: runC13dbg2}) }

func runC13dbg2(c *vx.Ctx) {
	core.VScaleParams(core.VR1)
	if os.Getenv("NOLOCK") == "" {
		core.VScaleLockBytes()
	}
	p := c.Part("dbg")
	p.States = 1
	u := c13Universe()
	s, _ := newScen(3, false, nil)
	cb := u.m[0].Addr
	o := core.VBuildOpts{Order: 2, Fill: true}
	if os.Getenv("NOCB") == "" {
		o.Coinbase = &cb
	}
	perr := vx.Guard(func() {
		blk, err := s.n.Build(o)
		fmt.Println("BUILD", err)
		if blk != nil {
			fmt.Println("mix", blk.WorkObjectHeader().MixHash().Hex(), "diff", blk.Difficulty(), "num", blk.NumberArray(), "cb", blk.PrimaryCoinbase().Hex())
			r := s.n.Append(blk)
			fmt.Println("APPEND", r.Err())
		}
	})
	fmt.Println("PERR", perr[:min(len(perr), 1500)])
}
