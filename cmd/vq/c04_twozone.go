package main

// C04, part "two-zones": cross-chain transactions between SIBLING zones.
//
// A real prime + region 0 + zone [0,0] + zone [0,1] node (expansion number 1, core.VNode2) walks
// every word over
//
//	a / b   zone-order block mined in zone [0,0] / [0,1]
//	A / B   region-order block mined in that zone (coincident with the region)
//	P / Q   prime-order block mined in that zone
//	x       a Quai transaction in zone [0,0]'s pool paying an address of zone [0,1] (intra-region ETX)
//	y       the same from [0,1] to [0,0]
//	r       reorganisation: the node switches from the block appended last to its sibling (same
//	        parents and content, different seal; both assembled before either was appended), at
//	        every level that block belongs to
//
// after a warm-up (which also funds the sender in [0,1] through the path under test) and followed by
// a drain that gives everything emitted before it the chance to arrive. Intra-region ETXs never see
// prime: the region collects them from the zones' pending-ETX bundles at region-coincident blocks
// and hands them to the sibling with that sibling's next REGION-order block
// (Slice.CollectNewlyConfirmedEtxs, Transactions.FilterToSub); coinbase ETXs travel through prime and
// come back either directly with a prime-order block of their zone or, when the prime block was
// mined in the sibling, with the zone's next region-order block.
//
// Oracle (c04TzMonitor, per ETX id = originating tx hash + index, evaluated after every block):
// emitted once by a canonical block of its origin zone; handed down (the list the zone stored for a
// dom-coincident block) once, after emission, and only to the zone its To address lies in; executed
// once, in that zone, after it was handed down, payload unchanged, in hand-down order; after the
// drain nothing emitted before the drain is missing. Every block assembled by the node's own
// workers must be accepted.

import (
	"errors"
	"fmt"
	"math/big"
	"os"
	"strings"

	"github.com/dominant-strategies/go-quai/common"
	"github.com/dominant-strategies/go-quai/core"
	"github.com/dominant-strategies/go-quai/core/types"
	"github.com/dominant-strategies/go-quai/verifshim/vx"
)

const (
	c04TzWarmup = "axaAbBb"
	c04TzDrain  = "aAbQaPbBaAbBabab"
)

type c04TzBlock struct {
	zone int
	seq  int // position in the global append order
	blk  *types.WorkObject
}

type c04TzScen struct {
	n      *core.VNode2
	k      [2][3]*core.VKey
	chain  [2][]*c04TzBlock // canonical chain per zone
	all    []*c04TzBlock    // global append order
	sent   [2]int           // x / y transactions accepted by the pools
	sentTx map[common.Hash]int
	// sibling of the block appended last (same parents, same content, different seal), built before
	// that block was appended; letter 'r' switches to it
	sib      *types.WorkObject
	orphaned int
}

func newC04TzScen() (*c04TzScen, error) {
	s := &c04TzScen{sentTx: map[common.Hash]int{}}
	for z := 0; z < 2; z++ {
		for i := 0; i < 3; i++ {
			s.k[z][i] = core.VGrindKey(i+1, 0, byte(z), false)
		}
	}
	cfg := core.VNode2Config{Alloc: map[common.Address]*big.Int{s.k[0][0].Addr: scenFund, s.k[0][1].Addr: scenFund}}
	for z := 0; z < 2; z++ {
		cfg.QuaiCoinbase[z] = s.k[z][2].Addr
		cfg.QiCoinbase[z] = core.VGrindKey(1, 0, byte(z), true).Addr
	}
	cfg.NoGenesisParentSeam = os.Getenv("VQ_TZ_NOSEAM") != "" // development: shows why the seam exists
	n, err := core.VNewNode2(cfg)
	if err != nil {
		return nil, err
	}
	s.n = n
	return s, nil
}

func (s *c04TzScen) close() { s.n.Close() }

var errC04TzInfeasible = errors.New("infeasible")

// c04TzSiblingRefused: the node refuses to reorganise to the sibling of its newest block.
type c04TzSiblingRefused struct{ err error }

func (e c04TzSiblingRefused) Error() string { return e.err.Error() }

// step performs one letter (next = the letter after it, 0 at the end). Errors: errC04TzInfeasible
// (wanted order impossible in this state), core.VOwnBlockRejected / c04TzSiblingRefused (violations),
// anything else = harness.
func (s *c04TzScen) step(ch, next byte) error {
	switch ch {
	case 'r':
		if s.sib == nil || len(s.all) == 0 {
			return errors.New("letter r without a sibling prepared")
		}
		last := s.all[len(s.all)-1]
		sib := s.sib
		s.sib = nil
		r := s.n.Append(last.zone, sib)
		if r.Err() != nil {
			return c04TzSiblingRefused{r.Err()}
		}
		// the switch must really have happened at every level the block belongs to
		for ctx := 2; ctx >= r.Order; ctx-- {
			if s.n.VCurrent(last.zone, ctx) != sib.Hash() || !s.n.VCanonical(last.zone, ctx, sib) || s.n.VCanonical(last.zone, ctx, last.blk) {
				return fmt.Errorf("after the switch the sibling is not the canonical head of context %d", ctx)
			}
		}
		nb := &c04TzBlock{zone: last.zone, seq: last.seq, blk: sib}
		s.all[len(s.all)-1] = nb
		s.chain[last.zone][len(s.chain[last.zone])-1] = nb
		s.orphaned++
		s.trace('r', nb)
		return nil
	case 'x', 'y':
		z := int(ch - 'x')
		from, to := s.k[z][0], common.BytesToAddress(s.k[1-z][0].Addr.Bytes(), core.V2ZoneLoc(z))
		amt := new(big.Int).Mul(big.NewInt(1e18), big.NewInt(1000))
		if ch == 'x' {
			amt.Mul(amt, big.NewInt(100)) // [0,0] -> [0,1] also funds the sender of 'y'
		}
		amt.Add(amt, big.NewInt(int64(s.sent[z]+1))) // distinct values: an exchange of two payloads is visible
		nonce := s.n.VNonce(z, from.Addr) + uint64(s.pending(z))
		tx := s.n.QuaiTx(z, from, nonce, &to, amt, 100000, new(big.Int).Mul(scenPrice, big.NewInt(3)), nil)
		if errs := s.n.AddTxs(z, tx); errs[0] != nil {
			return fmt.Errorf("cross-zone tx refused by the pool of zone %d: %w", z, errs[0])
		}
		s.sent[z]++
		s.sentTx[tx.Hash()] = z
		return nil
	}
	var z, order int
	switch ch {
	case 'a', 'b':
		z, order = int(ch-'a'), 2
	case 'A', 'B':
		z, order = int(ch-'A'), 1
	case 'P', 'Q':
		z, order = int(ch-'P'), 0
	default:
		return fmt.Errorf("unknown letter %c", ch)
	}
	s.sib = nil
	build := func(salt int64) (*types.WorkObject, error) {
		blk, err := s.n.Build(z, order, true, salt)
		var inf core.V2Infeasible
		if errors.As(err, &inf) {
			return nil, errC04TzInfeasible
		}
		return blk, err
	}
	blk, err := build(0)
	if err != nil {
		return err
	}
	var sib *types.WorkObject
	if next == 'r' {
		// both siblings are assembled on the same state before either is appended
		if sib, err = build(7); err != nil {
			return err
		}
		if sib.Hash() == blk.Hash() {
			return errors.New("siblings are identical")
		}
	}
	if r := s.n.Append(z, blk); r.Err() != nil {
		return core.VOwnBlockRejected{Err: r.Err()}
	}
	s.sib = sib
	b := &c04TzBlock{zone: z, seq: len(s.all), blk: blk}
	s.chain[z] = append(s.chain[z], b)
	s.all = append(s.all, b)
	s.trace(ch, b)
	return nil
}

func (s *c04TzScen) trace(ch byte, b *c04TzBlock) {
	z, blk := b.zone, b.blk
	if os.Getenv("VQ_TRACE") != "" {
		fmt.Printf("  [%c] zone %d num=%v txs=%d out=%d inbound=%d\n", ch, z, blk.NumberArray(), len(blk.Transactions()), len(blk.OutboundEtxs()), len(s.n.VInboundEtxs(z, blk)))
		for _, t := range blk.Transactions() {
			if t.Type() == types.ExternalTxType {
				fmt.Printf("      exec etx %v type=%d to=%x val=%v\n", c04IdOf(t), t.EtxType(), t.To().Bytes()[:2], t.Value())
			} else {
				fmt.Printf("      tx type=%d\n", t.Type())
			}
		}
		for _, t := range blk.OutboundEtxs() {
			fmt.Printf("      out  etx %v type=%d to=%x val=%v\n", c04IdOf(t), t.EtxType(), t.To().Bytes()[:2], t.Value())
		}
		for _, t := range s.n.VInboundEtxs(z, blk) {
			fmt.Printf("      in   etx %v type=%d to=%x val=%v\n", c04IdOf(t), t.EtxType(), t.To().Bytes()[:2], t.Value())
		}
		for _, r := range s.n.VReceipts(z, blk) {
			fmt.Printf("      receipt status=%d gas=%d\n", r.Status, r.GasUsed)
		}
	}
}

// pending: cross-zone transactions of zone z that are in the pool but not yet in a block.
func (s *c04TzScen) pending(z int) int {
	inBlock := 0
	for _, b := range s.chain[z] {
		for _, t := range b.blk.Transactions() {
			if _, ok := s.sentTx[t.Hash()]; ok {
				inBlock++
			}
		}
	}
	return s.sent[z] - inBlock
}

// ---- monitor ----------------------------------------------------------------------------------------

type c04TzEmit struct {
	zone, seq int
	tx        *types.Transaction
}

type c04TzStats struct {
	crossEmitted, crossExecuted [2]int // by ORIGIN zone: ETXs whose destination is the sibling
	otherEmitted, otherExecuted int    // ETXs travelling through prime (coinbase)
}

func (st c04TzStats) class() string {
	return fmt.Sprintf("0->1:%d/%d,1->0:%d/%d,via-prime:%d/%d", st.crossExecuted[0], st.crossEmitted[0], st.crossExecuted[1], st.crossEmitted[1], st.otherExecuted, st.otherEmitted)
}

// c04TzMonitor evaluates the invariants on everything appended so far. final: additionally, every ETX
// emitted by a block with global sequence number < mustBefore must have been handed down and executed.
func c04TzMonitor(s *c04TzScen, final bool, mustBefore int) (string, string, c04TzStats) {
	var st c04TzStats
	emitted := map[c04Id]c04TzEmit{}
	var emitOrder []c04Id
	delivered := map[c04Id]*c04TzBlock{}
	executed := map[c04Id]*c04TzBlock{}
	var queue [2][]c04Id // hand-down order per zone
	var nexec [2]int
	zoneOf := func(t *types.Transaction) int {
		l := t.To().Location()
		if l.Region() != 0 || l.Zone() > 1 {
			return -1
		}
		return l.Zone()
	}
	for _, b := range s.all {
		z, h := b.zone, b.blk.NumberU64(2)
		// 1. execution (transactions of the block run before its own emissions / hand-downs count)
		for _, t := range b.blk.Transactions() {
			if t.Type() != types.ExternalTxType {
				continue
			}
			id := c04IdOf(t)
			em, ok := emitted[id]
			if !ok {
				return "exec:never-emitted", fmt.Sprintf("zone %d block %d executes ETX %v that no canonical block emitted", z, h, id), st
			}
			if prev, dup := executed[id]; dup {
				return "exec:twice", fmt.Sprintf("ETX %v executed in zone %d block %d and again in zone %d block %d", id, prev.zone, prev.blk.NumberU64(2), z, h), st
			}
			if want := zoneOf(em.tx); want != z {
				return "exec:wrong-zone", fmt.Sprintf("ETX %v addressed to %s (zone %d) is executed in zone %d block %d", id, em.tx.To().Hex(), want, z, h), st
			}
			d, ok := delivered[id]
			if !ok || d.zone != z {
				return "exec:before-hand-down", fmt.Sprintf("zone %d block %d executes ETX %v that the dominant chain has not handed to this zone", z, h, id), st
			}
			o := em.tx
			if o.To().Hex() != t.To().Hex() || o.Gas() != t.Gas() || string(o.Data()) != string(t.Data()) || o.ETXSender().Hex() != t.ETXSender().Hex() || o.Value().Cmp(t.Value()) != 0 || o.EtxType() != t.EtxType() {
				return "exec:altered", fmt.Sprintf("ETX %v changed in transit: emitted to=%s value=%v gas=%d type=%d sender=%s, executed to=%s value=%v gas=%d type=%d sender=%s", id, o.To().Hex(), o.Value(), o.Gas(), o.EtxType(), o.ETXSender().Hex(), t.To().Hex(), t.Value(), t.Gas(), t.EtxType(), t.ETXSender().Hex()), st
			}
			if nexec[z] >= len(queue[z]) || queue[z][nexec[z]] != id {
				exp := "nothing"
				if nexec[z] < len(queue[z]) {
					exp = queue[z][nexec[z]].String()
				}
				return "exec:out-of-order", fmt.Sprintf("zone %d block %d executes ETX %v but the next one in hand-down order is %s", z, h, id, exp), st
			}
			nexec[z]++
			executed[id] = b
			if em.zone != z {
				st.crossExecuted[em.zone]++
			} else {
				st.otherExecuted++
			}
		}
		// 2. emission
		for _, e := range b.blk.OutboundEtxs() {
			id := c04IdOf(e)
			if prev, dup := emitted[id]; dup {
				return "emit:id-reused", fmt.Sprintf("ETX id %v emitted by zone %d (append #%d) and again by zone %d block %d", id, prev.zone, prev.seq, z, h), st
			}
			emitted[id] = c04TzEmit{z, b.seq, e}
			emitOrder = append(emitOrder, id)
			if dz := zoneOf(e); dz >= 0 && dz != z {
				st.crossEmitted[z]++
			} else {
				st.otherEmitted++
			}
		}
		// 3. hand-down with this block
		for _, t := range s.n.VInboundEtxs(z, b.blk) {
			id := c04IdOf(t)
			em, ok := emitted[id]
			if !ok {
				return "deliver:never-emitted", fmt.Sprintf("the dominant chain hands zone %d (block %d) ETX %v that no canonical block emitted", z, h, id), st
			}
			if em.seq >= b.seq {
				return "deliver:before-coincidence", fmt.Sprintf("ETX %v emitted by block #%d is handed down with the same/an earlier block #%d", id, em.seq, b.seq), st
			}
			if prev, dup := delivered[id]; dup {
				return "deliver:twice", fmt.Sprintf("ETX %v (to %s) is handed down twice: with zone %d block %d and with zone %d block %d", id, em.tx.To().Hex(), prev.zone, prev.blk.NumberU64(2), z, h), st
			}
			if want := zoneOf(em.tx); want != z {
				return "deliver:wrong-zone", fmt.Sprintf("ETX %v addressed to %s (zone %d) is handed to zone %d with its block %d", id, em.tx.To().Hex(), want, z, h), st
			}
			delivered[id] = b
			queue[z] = append(queue[z], id)
		}
	}
	if final {
		for _, id := range emitOrder {
			em := emitted[id]
			if em.seq >= mustBefore {
				continue
			}
			kind := "via-prime"
			if zoneOf(em.tx) != em.zone {
				kind = "intra-region"
			}
			if _, ok := delivered[id]; !ok {
				return "deliver:lost:" + kind, fmt.Sprintf("%s ETX %v (zone %d -> %s, emitted by append #%d) was never handed down although the drain %q followed", kind, id, em.zone, em.tx.To().Hex(), em.seq, c04TzDrain), st
			}
			if _, ok := executed[id]; !ok {
				return "exec:lost:" + kind, fmt.Sprintf("%s ETX %v (zone %d -> %s) was handed down but never executed", kind, id, em.zone, em.tx.To().Hex()), st
			}
		}
	}
	return "", "", st
}

// ---- walking a word ---------------------------------------------------------------------------------

// c04TzRun walks warm-up + word + drain. Result: (violation key, description, outcome class).
// key "harness" = harness error; class "infeasible@i" = the word asks for an order CalcOrder cannot
// give in that state (the word is not a behaviour of the system).
func c04TzRun(word string, p *vx.Part) (key, desc, cls string) {
	s, err := newC04TzScen()
	if err != nil {
		return "harness", err.Error(), ""
	}
	defer s.close()
	walk := func(phase, w string) (string, string, string) {
		for i := 0; i < len(w); i++ {
			var err error
			var next byte
			if i+1 < len(w) {
				next = w[i+1]
			}
			if perr := vx.Guard(func() { err = s.step(w[i], next) }); perr != "" {
				return "panic:" + vx.PanicSite(perr), fmt.Sprintf("word %q, %s step %d (%c): %s", word, phase, i, w[i], perr), ""
			}
			var rej core.VOwnBlockRejected
			var ref c04TzSiblingRefused
			switch {
			case err == nil:
			case err == errC04TzInfeasible:
				return "", "", fmt.Sprintf("infeasible@%s%d", phase[:1], i)
			case errors.As(err, &rej):
				return "own-block-rejected:" + c04TzLetterClass(w[i]), fmt.Sprintf("word %q, %s step %d: the node refuses the block its own workers assembled for letter %c: %v", word, phase, i, w[i], rej.Err), ""
			case errors.As(err, &ref):
				return "reorg:sibling-refused:" + c04TzLetterClass(w[i-1]), fmt.Sprintf("word %q, %s step %d: the node refuses to switch from its newest block (letter %c) to that block's sibling (same parents and content, other seal): %v", word, phase, i, w[i-1], ref.err), ""
			default:
				return "harness", fmt.Sprintf("word %q, %s step %d (%c): %v", word, phase, i, w[i], err), ""
			}
			if w[i] == 'x' || w[i] == 'y' {
				continue
			}
			if p != nil {
				p.Transitions++
			}
			if k, d, _ := c04TzMonitor(s, false, 0); k != "" {
				return k, fmt.Sprintf("word %q after %s step %d (%c): %s", word, phase, i, w[i], d), ""
			}
		}
		return "", "", ""
	}
	if k, d, c := walk("warm-up", c04TzWarmup); k != "" || c != "" {
		if c != "" {
			return "harness", fmt.Sprintf("warm-up %q is infeasible (%s)", c04TzWarmup, c), ""
		}
		return k, d, ""
	}
	// the warm-up is a complete journey for its own ETX
	if k, d, st := c04TzMonitor(s, true, 3); k != "" {
		return k, fmt.Sprintf("after the warm-up %q: %s", c04TzWarmup, d), ""
	} else if st.crossExecuted[0] != 1 {
		return "harness", fmt.Sprintf("warm-up %q did not carry its ETX across (%s)", c04TzWarmup, st.class()), ""
	}
	if k, d, c := walk("word", word); k != "" || c != "" {
		return k, d, c
	}
	drainStart := len(s.all)
	if k, d, c := walk("drain", c04TzDrain); k != "" || c != "" {
		if c != "" { // the drain is built so that every letter is possible (each dom block follows a zone block of its zone)
			return "harness", fmt.Sprintf("word %q: the drain %q is infeasible (%s): nothing can be said about loss", word, c04TzDrain, c), ""
		}
		return k, d, ""
	}
	k, d, st := c04TzMonitor(s, true, drainStart)
	if k != "" {
		return k, fmt.Sprintf("word %q after the drain: %s", word, d), ""
	}
	// every injected transaction must have produced its ETX (otherwise the walk did not exercise
	// what it claims to)
	if st.crossEmitted[0] != s.sent[0] || st.crossEmitted[1] != s.sent[1] {
		return "harness", fmt.Sprintf("word %q: %d/%d cross-zone transactions were accepted by the pools but %d/%d ETXs were emitted", word, s.sent[0], s.sent[1], st.crossEmitted[0], st.crossEmitted[1]), ""
	}
	cls = st.class()
	if s.orphaned > 0 {
		cls += fmt.Sprintf(",reorgs:%d", s.orphaned)
	}
	return "", "", cls
}

func c04TzLetterClass(ch byte) string {
	switch ch {
	case 'a', 'b':
		return "zone-order"
	case 'A', 'B':
		return "region-order"
	}
	return "prime-order"
}

func c04TzWords(maxLen int) []string {
	var out []string
	var rec func(cur string)
	rec = func(cur string) {
		if n := len(cur); n > 0 && cur[n-1] != 'x' && cur[n-1] != 'y' {
			out = append(out, cur)
		}
		if len(cur) == maxLen {
			return
		}
		for _, ch := range "abABPQxyr" {
			if ch == 'r' && (len(cur) == 0 || !strings.ContainsRune("abABPQ", rune(cur[len(cur)-1]))) {
				continue // r re-mines the block appended last
			}
			rec(cur + string(ch))
		}
	}
	rec("")
	return out
}

func c04TwoZones(c *vx.Ctx) {
	p := c.Part("two-zones")
	restore := core.V2Regime()
	defer restore()
	c.Assume("two-zones: controller-off regime (ControllerKickInBlock = never); expansion number 1 from genesis (SetupGenesisBlockWithOverride); zone [0,1] is answered 'genesis' when it asks for the parent of the genesis block")
	c.Rule += "; two-zones: all words over {a,b,A,B,P,Q,x,y,r} on a prime/region/zone[0,0]/zone[0,1] node between a fixed warm-up and drain, two-zone ETX id monitor after every block"
	maxLen := 3
	if c.Thorough() {
		maxLen = 5
	}
	p.Bound("word_length", maxLen)
	p.Bound("alphabet", "a,b = zone-order block in [0,0],[0,1]; A,B = region-order; P,Q = prime-order; x,y = cross-zone transaction [0,0]->[0,1], [0,1]->[0,0]; r = reorganise to the sibling of the block appended last (only directly after a block letter)")
	p.Bound("warmup", c04TzWarmup)
	p.Bound("drain", c04TzDrain)
	p.Note("outcome class = executed/emitted per kind at the end of the walk: 0->1 and 1->0 are intra-region ETXs by direction (the warm-up contributes one 0->1), via-prime are coinbase ETXs (their emitted count includes those emitted during the drain, which need not arrive); infeasible@<phase><i> = CalcOrder cannot give the order letter i asks for in that state, the word is not a behaviour of the system")
	words := c04TzWords(maxLen)
	if w := os.Getenv("VQ_TZ_WORD"); w != "" { // development: walk one word (with VQ_TRACE=1)
		if c.Shard == 0 {
			k, d, cls := c04TzRun(w, p)
			fmt.Printf("word %q: key=%q class=%q\n%s\n", w, k, cls, d)
		}
		p.Incomplete("single word requested")
		return
	}
	if c.Shard == 0 {
		p.States = int64(len(words))
	}
	p.MaxDepth = int64(len(c04TzWarmup) + maxLen + len(c04TzDrain))
	crossSeen := false
	ran, violated := 0, 0
	for i, w := range words {
		if !c.Mine(int64(i)) {
			continue
		}
		if c.Expired() {
			p.Incomplete("deadline")
			break
		}
		key, desc, cls := c04TzRun(w, p)
		if key == "harness" {
			c.HarnessError(desc)
			return
		}
		p.Traces++
		ran++
		if key != "" {
			violated++
			p.Outcome("VIOLATED:" + key)
			w := w
			if c.Confirm(desc, func() string { k, _, _ := c04TzRun(w, nil); return k }) {
				c.Violate("two-zones", "two-zones:"+key, desc, map[string]string{"word": w})
			}
			continue
		}
		p.Outcome(cls)
		if !strings.HasPrefix(cls, "infeasible") && !strings.HasPrefix(cls, "0->1:1/1,1->0:0/0") {
			crossSeen = true
		}
		if i%37 == 0 {
			p.Sample(map[string]string{"word": w, "result": cls})
		}
	}
	if ran > 8 && violated == 0 && !crossSeen && p.Exhaustive {
		c.HarnessError("two-zones: no word of this shard carried an intra-region ETX beyond the warm-up one: the exploration is vacuous")
	}
}

func c04ReplayTwoZones(raw []byte) string {
	var cs map[string]string
	if err := jsonUnmarshal(raw, &cs); err != nil {
		return "bad replay: " + err.Error()
	}
	restore := core.V2Regime()
	defer restore()
	_, d, _ := c04TzRun(cs["word"], nil)
	return d
}
