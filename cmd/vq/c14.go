package main

// C14 — encode/decode round trips preserve objects, bytes and identity.
//
// Bounded-exhaustive exploration of the REAL encoders/decoders: for every subject type a baseline
// object and ALL variants with <= k deviations (k = 2) over per-field menus {absent/nil, zero/empty,
// typical, max width, boundary of the wire integer, each location}. Every variant is driven through
// every encoding path the type has (protobuf, RLP, JSON-RPC, MarshalJSON, rawdb accessors, p2p
// envelope) and the oracle of the property statement is evaluated on every execution:
//
//	x  --enc-->  b1  --dec-->  y  --enc-->  b3  --dec-->  z
//
//	enc(x) twice gives the same bytes                         (deterministic encoding)
//	well-formed x:  dec succeeds, Hash(y)==Hash(x), ref(y)==ref(x), enc(y)==b1
//	always (y was produced by a decoder, hence well-formed):  z == y field for field (strict),
//	                Hash(z)==Hash(y), enc(z)==b3              (fixpoint)
//	over the whole enumerated set: same hash  =>  same reference content   (no collisions)
//
// ref(.) is a harness-written canonical dump of the CONTENT of an object obtained through its public
// accessors only (it never touches an encoder), in which nil and zero/empty are identified; it is
// the boring reference model for "equal object" and for "differ in a consensus field".
// strict(.) is a reflection dump of every field (unexported ones included, caches and time stamps
// skipped) that does distinguish nil from empty; it is only used for the decoder fixpoint z == y.

import (
	"bufio"
	"bytes"
	"crypto/sha256"
	"encoding/hex"
	"fmt"
	"io"
	"math/big"
	"os"
	"reflect"
	"regexp"
	"runtime/debug"
	"runtime/pprof"
	"sort"
	"strings"
	"sync/atomic"
	"time"

	"github.com/dominant-strategies/go-quai/common"
	"github.com/dominant-strategies/go-quai/verifshim/vx"
)

func init() {
	register(vx.CheckSpec{ID: "C14", Shards: 16, QuickBudget: 70 * time.Second, ThoroughBudg: 14 * time.Minute, Run: runC14, ReplayFn: replayC14})
}

// ---------------------------------------------------------------------------------------------
// menus, fields, subjects

type c14Env struct {
	Loc common.Location // node location used by location-dependent decoders
}

type c14Val struct {
	L   string // label (stable; used in replay artefacts)
	V   any
	Ill bool // choosing this value makes the object NOT well-formed (no constructor/decoder yields it)
}

type c14Field struct {
	N string
	M []c14Val // M[0] is the baseline
}

// c14Vals gives typed access to the chosen value of each field.
type c14Vals struct {
	idx map[string]int
	f   []c14Field
	c   []int
}

func (v *c14Vals) raw(n string) any {
	i, ok := v.idx[n]
	if !ok {
		panic("c14: unknown field " + n)
	}
	return v.f[i].M[v.c[i]].V
}
func (v *c14Vals) label(n string) string { i := v.idx[n]; return v.f[i].M[v.c[i]].L }
func (v *c14Vals) big(n string) *big.Int {
	x := v.raw(n)
	if x == nil {
		return nil
	}
	b := x.(*big.Int)
	if b == nil {
		return nil
	}
	return new(big.Int).Set(b)
}
func (v *c14Vals) u64(n string) uint64 { return v.raw(n).(uint64) }
func (v *c14Vals) bytes(n string) []byte {
	x := v.raw(n)
	if x == nil {
		return nil
	}
	b := x.([]byte)
	if b == nil {
		return nil
	}
	return append(make([]byte, 0, len(b)), b...) // keeps empty-but-non-nil
}
func (v *c14Vals) hash(n string) common.Hash { return v.raw(n).(common.Hash) }
func (v *c14Vals) hashp(n string) *common.Hash {
	x := v.raw(n)
	if x == nil {
		return nil
	}
	h := x.(common.Hash)
	return &h
}
func (v *c14Vals) str(n string) string { return v.raw(n).(string) }
func (v *c14Vals) loc() common.Location {
	l := v.raw("loc").(common.Location)
	return append(common.Location{}, l...)
}

type c14Path struct {
	Name    string
	Enc     func(e *c14Env, obj any) ([]byte, error)
	Dec     func(e *c14Env, b []byte) (any, error)
	Applies func(obj any) bool              // nil = always
	Proj    func(e *c14Env, obj any) any    // projection of the object onto what this path is meant to carry (views)
	Ref     func(e *c14Env, obj any) string // overrides the subject's ref (paths that carry a sub-object)
	NoHash  bool                            // the path does not carry the hashed content
}

type c14Subject struct {
	Name   string
	Domain string // collision domain ("" = no hash / no collision check)
	Fields func() []c14Field
	// Build constructs the object from the chosen values through the public constructors. ill=true if
	// the combination is not well-formed for a reason that is not visible on a single menu value.
	Build func(e *c14Env, v *c14Vals) (obj any, ill bool)
	Ref   func(e *c14Env, obj any) string
	Hash  func(e *c14Env, obj any) string
	Paths []c14Path
	// ThoroughK overrides the number of deviations in the thorough tier (default 3).
	ThoroughK int

	memo []c14Field
}

// F returns the (memoised) field list; the tier flag c14Deep must be final before the first call.
func (s *c14Subject) F() []c14Field {
	if s.memo == nil {
		s.memo = s.Fields()
	}
	return s.memo
}

var c14Subjects []*c14Subject

// c14Deep is set in the thorough tier: full menus and three deviations.
var c14Deep bool

func c14Register(s *c14Subject) { c14Subjects = append(c14Subjects, s) }

// ---------------------------------------------------------------------------------------------
// enumeration of <=k-deviation choice vectors, simplest first

func c14Enumerate(fields []c14Field, k int, visit func(choice []int, ndev int) bool) {
	n := len(fields)
	choice := make([]int, n)
	if !visit(choice, 0) {
		return
	}
	if k >= 1 {
		for f := 0; f < n; f++ {
			for m := 1; m < len(fields[f].M); m++ {
				choice[f] = m
				ok := visit(choice, 1)
				choice[f] = 0
				if !ok {
					return
				}
			}
		}
	}
	if k >= 2 {
		for f1 := 0; f1 < n; f1++ {
			for f2 := f1 + 1; f2 < n; f2++ {
				for m1 := 1; m1 < len(fields[f1].M); m1++ {
					for m2 := 1; m2 < len(fields[f2].M); m2++ {
						choice[f1], choice[f2] = m1, m2
						ok := visit(choice, 2)
						choice[f1], choice[f2] = 0, 0
						if !ok {
							return
						}
					}
				}
			}
		}
	}
	if k >= 3 {
		for f1 := 0; f1 < n; f1++ {
			for f2 := f1 + 1; f2 < n; f2++ {
				for f3 := f2 + 1; f3 < n; f3++ {
					for m1 := 1; m1 < len(fields[f1].M); m1++ {
						for m2 := 1; m2 < len(fields[f2].M); m2++ {
							for m3 := 1; m3 < len(fields[f3].M); m3++ {
								choice[f1], choice[f2], choice[f3] = m1, m2, m3
								ok := visit(choice, 3)
								choice[f1], choice[f2], choice[f3] = 0, 0, 0
								if !ok {
									return
								}
							}
						}
					}
				}
			}
		}
	}
}

func c14Count(fields []c14Field, k int) int64 {
	var n int64
	c14Enumerate(fields, k, func([]int, int) bool { n++; return true })
	return n
}

// ---------------------------------------------------------------------------------------------
// replay artefact

type c14Replay struct {
	Subject string            `json:"subject"`
	Path    string            `json:"path,omitempty"`
	Dev     map[string]string `json:"deviations"` // field -> menu label (baseline elsewhere)
	Other   map[string]string `json:"other,omitempty"`
	Key     string            `json:"key"`
}

func c14Devs(fields []c14Field, choice []int) map[string]string {
	d := map[string]string{}
	for i, c := range choice {
		if c != 0 {
			d[fields[i].N] = fields[i].M[c].L
		}
	}
	return d
}

func c14DevString(d map[string]string) string {
	if len(d) == 0 {
		return "baseline"
	}
	ks := make([]string, 0, len(d))
	for k := range d {
		ks = append(ks, k)
	}
	sort.Strings(ks)
	var sb strings.Builder
	for i, k := range ks {
		if i > 0 {
			sb.WriteString(", ")
		}
		fmt.Fprintf(&sb, "%s=%s", k, d[k])
	}
	return sb.String()
}

func c14ChoiceFromDevs(fields []c14Field, d map[string]string) ([]int, error) {
	choice := make([]int, len(fields))
	for fn, lbl := range d {
		found := false
		for i, f := range fields {
			if f.N != fn {
				continue
			}
			for m, v := range f.M {
				if v.L == lbl {
					choice[i] = m
					found = true
				}
			}
		}
		if !found {
			return nil, fmt.Errorf("replay names unknown field/value %s=%s", fn, lbl)
		}
	}
	return choice, nil
}

// ---------------------------------------------------------------------------------------------
// one case = one variant of one subject through all its paths

type c14Fail struct {
	Key  string
	Desc string
	Path string
	// Class is what subsumption is decided on: the key, except for content-equal hash/bytes failures
	// where the detail (first nil/empty difference) is not necessarily the cause.
	Class string
	// AtDev: the key does not name the offending field by itself (decoder errors, panics): the
	// minimal deviation set is appended to the reported key.
	AtDev bool
}

var c14ErrNoise = regexp.MustCompile(`0x[0-9a-fA-F]+|[0-9a-fA-F]{16,}|\d+`)

func c14ErrClass(err error) string {
	s := err.Error()
	if i := strings.Index(s, "\n"); i > 0 {
		s = s[:i]
	}
	s = strings.ReplaceAll(s, "(types.Transaction)", "")
	s = strings.ReplaceAll(s, "Go struct field ", "")
	s = c14ErrNoise.ReplaceAllString(s, "#")
	if len(s) > 110 {
		s = s[:110]
	}
	return strings.TrimSpace(s)
}

// c14FirstDiff names the first line ("name=value") on which two dumps differ.
func c14FirstDiff(a, b string) (name, av, bv string) {
	la, lb := strings.Split(a, "\n"), strings.Split(b, "\n")
	for i := 0; i < len(la) || i < len(lb); i++ {
		var x, y string
		if i < len(la) {
			x = la[i]
		}
		if i < len(lb) {
			y = lb[i]
		}
		if x != y {
			src := x
			if src == "" {
				src = y
			}
			n := src
			if j := strings.Index(src, "="); j >= 0 {
				n = src[:j]
			}
			return n, c14Short(x), c14Short(y)
		}
	}
	return "", "", ""
}

func c14Short(s string) string {
	if len(s) > 160 {
		return s[:160] + "…"
	}
	return s
}

// c14FieldClass strips list indices so that keys name the field, not the element.
var c14IdxRe = regexp.MustCompile(`\[\d+\]`)

func c14FieldClass(n string) string { return c14IdxRe.ReplaceAllString(n, "[]") }

type c14CaseResult struct {
	Harness  string   // the harness itself failed (bad menu reference ...)
	Outcomes []string // one per path ("path:class")
	Fails    []c14Fail
	Hash     string // hash of the built object (for the collision pass), "" if none / ill-formed
	RefSum   [32]byte
	Ill      bool
}

func c14RunCase(s *c14Subject, fields []c14Field, choice []int, onlyPath string) (res c14CaseResult) {
	idx := map[string]int{}
	for i, f := range fields {
		idx[f.N] = i
	}
	vals := &c14Vals{idx: idx, f: fields, c: choice}
	env := &c14Env{Loc: vals.loc()}
	illMenu := false
	for i, c := range choice {
		if fields[i].M[c].Ill {
			illMenu = true
		}
	}
	devs := c14DevString(c14Devs(fields, choice))
	build := func() (any, bool, string) {
		var o any
		var ill bool
		perr := vx.Guard(func() { o, ill = s.Build(env, vals) })
		return o, ill || illMenu, perr
	}
	fail := func(p *c14Path, check, detail, desc string) {
		if i := strings.Index(desc, "\ngoroutine "); i > 0 {
			desc = desc[:i] + " at " + detail
		}
		key := fmt.Sprintf("%s/%s:%s:%s", s.Name, p.Name, check, detail)
		atDev := !(check == "equal" || check == "hash" || check == "bytes" || check == "fixpoint")
		class := key
		if check == "hash" || check == "bytes" {
			class = fmt.Sprintf("%s/%s:%s", s.Name, p.Name, check)
		}
		res.Fails = append(res.Fails, c14Fail{Key: key, Path: p.Name, AtDev: atDev, Class: class,
			Desc: fmt.Sprintf("%s via %s [%s] node-location=%v: %s", s.Name, p.Name, devs, []byte(env.Loc), desc)})
	}
	// decoy: the subject's baseline object (every field at its first menu value) with one field moved,
	// so that it differs from x whatever x is
	buildDecoy := func() (any, bool, string) {
		dc := make([]int, len(choice))
		for i := range dc {
			if choice[i] == 0 && len(fields[i].M) > 1 && !fields[i].M[1].Ill && fields[i].N != "loc" {
				dc[i] = 1
				break
			}
		}
		dv := &c14Vals{idx: idx, f: fields, c: dc}
		var o any
		var ill bool
		perr := vx.Guard(func() { o, ill = s.Build(&c14Env{Loc: dv.loc()}, dv) })
		return o, ill, perr
	}
	x0, ill0, perr0 := build()
	var sum0 [32]byte
	if perr0 == "" {
		sum0 = c14StrictSum(x0)
	}
	defer func() {
		// encoders, Hash() and view conversions must not change the object they are given
		if perr0 == "" && !ill0 && len(res.Fails) == 0 && c14StrictSum(x0) != sum0 {
			p := &s.Paths[0]
			fail(p, "mutated", "object", "an encoder / Hash() / view conversion modified the object it was given")
		}
	}()
	for pi := range s.Paths {
		p := &s.Paths[pi]
		if onlyPath != "" && p.Name != onlyPath {
			continue
		}
		x, ill, perr := x0, ill0, perr0
		res.Ill = ill
		if perr != "" {
			if ill {
				res.Outcomes = append(res.Outcomes, p.Name+":ill:constructor-panics")
				continue
			}
			if strings.Contains(perr, "panic: c14:") || strings.Contains(perr, "panic: harness:") {
				res.Harness = perr
				return res
			}
			fail(p, "build-panic", vx.PanicSite(perr), "constructor panicked: "+perr)
			continue
		}
		if p.Applies != nil && !p.Applies(x) {
			res.Outcomes = append(res.Outcomes, p.Name+":n/a")
			continue
		}
		ref := s.Ref
		if p.Ref != nil {
			ref = p.Ref
		}
		if p.Proj != nil {
			var px any
			if perr := vx.Guard(func() { px = p.Proj(env, x) }); perr != "" {
				if ill {
					res.Outcomes = append(res.Outcomes, p.Name+":ill:view-panics")
					continue
				}
				fail(p, "view-panic", vx.PanicSite(perr), "view conversion panicked: "+perr)
				continue
			}
			x = px
		}
		hashOf := func(o any) (h string, perr string) {
			if s.Hash == nil || p.NoHash {
				return "", ""
			}
			perr = vx.Guard(func() { h = s.Hash(env, o) })
			return
		}
		refOf := func(o any) (r string, perr string) {
			perr = vx.Guard(func() { r = ref(env, o) })
			return
		}
		enc := func(o any) (b []byte, err error, perr string) {
			perr = vx.Guard(func() { b, err = p.Enc(env, o) })
			return
		}
		dec := func(b []byte) (o any, err error, perr string) {
			perr = vx.Guard(func() { o, err = p.Dec(env, b) })
			return
		}

		// --- encode x, twice
		b1, err, perr := enc(x)
		if perr != "" {
			if ill {
				res.Outcomes = append(res.Outcomes, p.Name+":ill:enc-panics")
			} else {
				fail(p, "enc-panic", vx.PanicSite(perr), "encoder panicked on a well-formed object: "+perr)
			}
			continue
		}
		if err != nil {
			if ill {
				res.Outcomes = append(res.Outcomes, p.Name+":ill:enc-rejects:"+c14ErrClass(err))
			} else {
				fail(p, "enc-error", c14ErrClass(err), "encoder rejected a well-formed object: "+err.Error())
			}
			continue
		}
		b1copy := append([]byte{}, b1...)
		b2, err2, perr2 := enc(x)
		if perr2 != "" || err2 != nil || !bytes.Equal(b1, b2) {
			fail(p, "enc-nondeterministic", "bytes", fmt.Sprintf("encoding the same object twice gave different results (%d vs %d bytes, err=%v %s)", len(b1), len(b2), err2, perr2))
			continue
		}
		h0, hperr := hashOf(x)
		r0, rperr := refOf(x)
		if hperr != "" || rperr != "" {
			if ill {
				res.Outcomes = append(res.Outcomes, p.Name+":ill:hash-panics")
				continue
			}
			fail(p, "hash-panic", vx.PanicSite(hperr+rperr), "Hash()/accessors panicked on a well-formed object: "+hperr+rperr)
			continue
		}
		if pi == 0 || res.Hash == "" {
			if !ill && p.Proj == nil && p.Ref == nil && !p.NoHash {
				res.Hash = h0
				res.RefSum = sha256.Sum256([]byte(r0))
			}
		}

		// --- decode
		y, err, perr := dec(b1)
		if perr != "" {
			if ill {
				res.Outcomes = append(res.Outcomes, p.Name+":ill:dec-panics")
			} else {
				fail(p, "dec-panic", vx.PanicSite(perr), "decoder panicked on the encoding of a well-formed object: "+perr)
			}
			continue
		}
		if err != nil {
			if ill {
				res.Outcomes = append(res.Outcomes, p.Name+":reject:"+c14ErrClass(err))
			} else {
				fail(p, "dec-error", c14ErrClass(err), fmt.Sprintf("decoder rejected the encoding (%d bytes) of a well-formed object: %v", len(b1), err))
			}
			continue
		}
		h1, hperr := hashOf(y)
		r1, rperr := refOf(y)
		if hperr != "" || rperr != "" {
			if ill {
				// a decoder that accepts garbage which later crashes Hash() is C15's subject, not C14's
				res.Outcomes = append(res.Outcomes, p.Name+":ill:accepted:hash-panics")
				continue
			}
			fail(p, "hash-panic-decoded", vx.PanicSite(hperr+rperr), "Hash()/accessors panicked on a decoded object: "+hperr+rperr)
			continue
		}
		b3, err, perr := enc(y)
		if perr != "" || err != nil {
			fail(p, "reenc-error", c14ErrClass(fmt.Errorf("%v%s", err, vx.PanicSite(perr))), fmt.Sprintf("re-encoding a decoded object failed: %v %s", err, perr))
			continue
		}
		outcome := "ok"
		if !ill {
			// one failure per path: content first, then identity, then bytes
			hashNote := ""
			if h1 != h0 {
				hashNote = fmt.Sprintf("; hash changed %s -> %s", h0, h1)
			}
			bytesNote := ""
			if !bytes.Equal(b3, b1) {
				bytesNote = fmt.Sprintf("; re-encoding differs (%d vs %d bytes, first difference at offset %d)", len(b1), len(b3), c14FirstByteDiff(b1, b3))
			}
			switch {
			case r1 != r0:
				n, a, b := c14FirstDiff(r0, r1)
				fail(p, "equal", c14FieldClass(n), fmt.Sprintf("decoded object differs from the original in %s: original %q, decoded %q%s%s", n, a, b, hashNote, bytesNote))
				continue
			case h1 != h0:
				n := c14StrictDiffName(x, y)
				fail(p, "hash", "content-equal"+n, fmt.Sprintf("hash changed across the round trip although the content is equal (nil/empty representation of %s differs): %s -> %s%s", n, h0, h1, bytesNote))
				continue
			case !bytes.Equal(b3, b1):
				n := c14StrictDiffName(x, y)
				fail(p, "bytes", "content-equal"+n, fmt.Sprintf("re-encoding the decoded object gives different bytes although content and hash are equal (%s)%s", n, bytesNote))
				continue
			}
			if c14StrictSum(x) != c14StrictSum(y) {
				outcome = "ok:normalised(nil/empty/width)"
			}
		} else {
			switch {
			case h1 != h0:
				outcome = "ill:accepted:hash-normalised"
			case r1 != r0:
				outcome = "ill:accepted:content-normalised"
			default:
				outcome = "ill:accepted:stable"
			}
		}

		// --- fixpoint on the decoder-produced object
		z, err, perr := dec(b3)
		if perr != "" || err != nil {
			fail(p, "fix-dec-error", c14ErrClass(fmt.Errorf("%v%s", err, vx.PanicSite(perr))), fmt.Sprintf("decoder rejected the re-encoding of an object it produced itself: %v %s", err, perr))
			continue
		}
		if c14StrictSum(y) != c14StrictSum(z) {
			n, a, b := c14FirstDiff(c14Strict(y), c14Strict(z))
			fail(p, "fixpoint", c14FieldClass(n), fmt.Sprintf("dec(enc(y)) != y for a decoder-produced y at %s: %q vs %q", n, a, b))
			continue
		}
		h2, _ := hashOf(z)
		if h2 != h1 {
			fail(p, "fix-hash", "hash", fmt.Sprintf("hash of dec(enc(y)) differs from hash of decoder-produced y: %s vs %s", h1, h2))
			continue
		}
		b4, err, perr := enc(z)
		if perr != "" || err != nil || !bytes.Equal(b4, b3) {
			fail(p, "fix-bytes", "bytes", fmt.Sprintf("enc(dec(enc(y))) != enc(y) (%d vs %d bytes) %v %s", len(b3), len(b4), err, perr))
			continue
		}
		// --- the bytes handed out for x belong to the caller: later encodings (of x, y, z above, and of a
		// different object of the same kind now) must not have changed them
		if dx, dill, dperr := buildDecoy(); dperr == "" && !dill {
			if p.Applies == nil || p.Applies(dx) {
				vx.Guard(func() {
					if p.Proj != nil {
						dx = p.Proj(env, dx)
					}
					p.Enc(env, dx)
				})
			}
		}
		if !bytes.Equal(b1, b1copy) {
			fail(p, "enc-aliased", "bytes", fmt.Sprintf("the %d bytes returned for this object changed while other objects were being encoded (first difference at offset %d): the encoder handed out a buffer it reuses", len(b1), c14FirstByteDiff(b1, b1copy)))
			continue
		}
		res.Outcomes = append(res.Outcomes, p.Name+":"+outcome)
	}
	return res
}

func c14FirstByteDiff(a, b []byte) int {
	for i := 0; i < len(a) && i < len(b); i++ {
		if a[i] != b[i] {
			return i
		}
	}
	if len(a) < len(b) {
		return len(a)
	}
	return len(b)
}

func c14StrictDiffName(x, y any) string {
	n, _, _ := c14FirstDiff(c14Strict(x), c14Strict(y))
	return c14FieldClass(n)
}

// ---------------------------------------------------------------------------------------------
// strict reflection dump (nil vs empty distinguished; caches/time skipped)

var (
	c14TAtomic = reflect.TypeOf(atomic.Value{})
	c14TTime   = reflect.TypeOf(time.Time{})
	c14TBig    = reflect.TypeOf(big.Int{})
)

func c14Strict(o any) string {
	var sb strings.Builder
	sb.Grow(8 << 10)
	c14Walk(&sb, "", reflect.ValueOf(o), 0)
	return sb.String()
}

// c14StrictSum is the digest of the strict dump, streamed (no large strings on the hot path).
func c14StrictSum(o any) (sum [32]byte) {
	h := sha256.New()
	w := bufio.NewWriterSize(h, 4096)
	c14Walk(w, "", reflect.ValueOf(o), 0)
	w.Flush()
	h.Sum(sum[:0])
	return
}

func c14Walk(sb io.Writer, path string, v reflect.Value, depth int) {
	if depth > 40 {
		fmt.Fprintf(sb, "%s=<too deep>\n", path)
		return
	}
	if !v.IsValid() {
		fmt.Fprintf(sb, "%s=<invalid>\n", path)
		return
	}
	t := v.Type()
	switch t {
	case c14TAtomic, c14TTime:
		return
	case c14TBig:
		neg := v.FieldByName("neg").Bool()
		abs := v.FieldByName("abs")
		x := new(big.Int)
		for i := abs.Len() - 1; i >= 0; i-- {
			x.Lsh(x, 64)
			x.Or(x, new(big.Int).SetUint64(abs.Index(i).Uint()))
		}
		if neg {
			x.Neg(x)
		}
		fmt.Fprintf(sb, "%s=big:%s\n", path, x.String())
		return
	}
	switch v.Kind() {
	case reflect.Ptr:
		if v.IsNil() {
			fmt.Fprintf(sb, "%s=nil\n", path)
			return
		}
		c14Walk(sb, path, v.Elem(), depth+1)
	case reflect.Interface:
		if v.IsNil() {
			fmt.Fprintf(sb, "%s=nil-interface\n", path)
			return
		}
		fmt.Fprintf(sb, "%s.(type)=%s\n", path, v.Elem().Type().String())
		c14Walk(sb, path, v.Elem(), depth+1)
	case reflect.Struct:
		for i := 0; i < v.NumField(); i++ {
			f := t.Field(i)
			if f.Name == "ReceivedAt" || f.Name == "ReceivedFrom" || f.Name == "PowHash" || f.Name == "PowDigest" {
				continue
			}
			c14Walk(sb, path+"."+f.Name, v.Field(i), depth+1)
		}
	case reflect.Slice:
		if v.IsNil() {
			fmt.Fprintf(sb, "%s=nil-slice\n", path)
			return
		}
		if t.Elem().Kind() == reflect.Uint8 {
			b := make([]byte, v.Len())
			for i := range b {
				b[i] = byte(v.Index(i).Uint())
			}
			fmt.Fprintf(sb, "%s=bytes[%d]:%s\n", path, len(b), hex.EncodeToString(b))
			return
		}
		fmt.Fprintf(sb, "%s.len=%d\n", path, v.Len())
		for i := 0; i < v.Len(); i++ {
			c14Walk(sb, fmt.Sprintf("%s[%d]", path, i), v.Index(i), depth+1)
		}
	case reflect.Array:
		if t.Elem().Kind() == reflect.Uint8 {
			b := make([]byte, v.Len())
			for i := range b {
				b[i] = byte(v.Index(i).Uint())
			}
			fmt.Fprintf(sb, "%s=arr:%s\n", path, hex.EncodeToString(b))
			return
		}
		for i := 0; i < v.Len(); i++ {
			c14Walk(sb, fmt.Sprintf("%s[%d]", path, i), v.Index(i), depth+1)
		}
	case reflect.Map:
		if v.IsNil() || v.Len() == 0 {
			fmt.Fprintf(sb, "%s=map[%d]\n", path, v.Len())
			return
		}
		keys := v.MapKeys()
		ks := make([]string, len(keys))
		for i, k := range keys {
			ks[i] = fmt.Sprint(c14Plain(k))
		}
		sort.Strings(ks)
		fmt.Fprintf(sb, "%s=map-keys:%v\n", path, ks)
	case reflect.Bool:
		fmt.Fprintf(sb, "%s=%v\n", path, v.Bool())
	case reflect.Int, reflect.Int8, reflect.Int16, reflect.Int32, reflect.Int64:
		fmt.Fprintf(sb, "%s=%d\n", path, v.Int())
	case reflect.Uint, reflect.Uint8, reflect.Uint16, reflect.Uint32, reflect.Uint64, reflect.Uintptr:
		fmt.Fprintf(sb, "%s=%d\n", path, v.Uint())
	case reflect.String:
		fmt.Fprintf(sb, "%s=%q\n", path, v.String())
	case reflect.Float32, reflect.Float64:
		fmt.Fprintf(sb, "%s=%v\n", path, v.Float())
	case reflect.Func, reflect.Chan, reflect.UnsafePointer:
		return
	default:
		fmt.Fprintf(sb, "%s=<kind %s>\n", path, v.Kind())
	}
}

func c14Plain(v reflect.Value) any {
	switch v.Kind() {
	case reflect.Array:
		b := make([]byte, 0, v.Len())
		for i := 0; i < v.Len(); i++ {
			b = append(b, byte(v.Index(i).Uint()))
		}
		return hex.EncodeToString(b)
	case reflect.String:
		return v.String()
	case reflect.Uint, reflect.Uint8, reflect.Uint16, reflect.Uint32, reflect.Uint64:
		return v.Uint()
	case reflect.Int, reflect.Int8, reflect.Int16, reflect.Int32, reflect.Int64:
		return v.Int()
	}
	return "?"
}

// ---------------------------------------------------------------------------------------------
// ref-dump helpers (content model: nil == zero/empty)

type c14Ref struct{ sb strings.Builder }

func c14NewRef() *c14Ref { r := &c14Ref{}; r.sb.Grow(4 << 10); return r }

func (r *c14Ref) big(n string, b *big.Int) {
	if b == nil {
		fmt.Fprintf(&r.sb, "%s=0\n", n)
		return
	}
	fmt.Fprintf(&r.sb, "%s=%s\n", n, b.String())
}
func (r *c14Ref) u(n string, x uint64)      { fmt.Fprintf(&r.sb, "%s=%d\n", n, x) }
func (r *c14Ref) byt(n string, b []byte)    { fmt.Fprintf(&r.sb, "%s=%x\n", n, b) }
func (r *c14Ref) h(n string, h common.Hash) { fmt.Fprintf(&r.sb, "%s=%x\n", n, h[:]) }
func (r *c14Ref) hp(n string, h *common.Hash) {
	if h == nil {
		fmt.Fprintf(&r.sb, "%s=nil\n", n)
		return
	}
	fmt.Fprintf(&r.sb, "%s=%x\n", n, h[:])
}
func (r *c14Ref) s(n, v string)  { fmt.Fprintf(&r.sb, "%s=%s\n", n, v) }
func (r *c14Ref) String() string { return r.sb.String() }

// addr renders an address by its bytes (a nil inner is the zero-length address).
func (r *c14Ref) addr(n string, a common.Address) { fmt.Fprintf(&r.sb, "%s=%x\n", n, a.Bytes()) }

// ---------------------------------------------------------------------------------------------
// generic value menus

func c14Pow2(n uint) *big.Int { return new(big.Int).Lsh(big.NewInt(1), n) }
func c14Max(n uint) *big.Int  { return new(big.Int).Sub(c14Pow2(n), big.NewInt(1)) }

func c14HashOf(s string) common.Hash { return common.Hash(sha256.Sum256([]byte(s))) }

// c14BigMenu: typical first; nil is well-formed only where the constructor normalises it.
// The quick tier uses the leaner menus (c14Deep=false); the thorough tier adds the values marked deep.
func c14BigMenu(typ int64, nilIll bool) []c14Val {
	m := []c14Val{
		{L: "typ", V: big.NewInt(typ)},
		{L: "nil", V: (*big.Int)(nil), Ill: nilIll},
		{L: "0", V: big.NewInt(0)},
		{L: "2^256-1", V: c14Max(256)},
		{L: "2^256(33B)", V: c14Pow2(256), Ill: true}, // wider than the 256-bit quantity width of the data model (hexutil.Big limit)
	}
	if c14Deep {
		m = append(m, c14Val{L: "2^64-1", V: c14Max(64)}, c14Val{L: "255", V: big.NewInt(255)})
	}
	return m
}

func c14U64Menu(typ uint64) []c14Val {
	m := []c14Val{{L: "typ", V: typ}, {L: "0", V: uint64(0)}, {L: "max64", V: ^uint64(0)}}
	if c14Deep {
		m = append(m, c14Val{L: "1", V: uint64(1)}, c14Val{L: "2^32", V: uint64(1) << 32})
	}
	return m
}

func c14HashMenu(seed string) []c14Val {
	lead := common.Hash{}
	lead[31] = 1
	ff := common.Hash{}
	for i := range ff {
		ff[i] = 0xff
	}
	m := []c14Val{{L: "typ", V: c14HashOf(seed)}, {L: "zero", V: common.Hash{}}, {L: "0x00..01", V: lead}}
	if c14Deep {
		m = append(m, c14Val{L: "0xff..ff", V: ff})
	}
	return m
}

func c14BytesMenu(typ []byte) []c14Val {
	long := make([]byte, 300)
	for i := range long {
		long[i] = byte(i * 7)
	}
	m := []c14Val{{L: "typ", V: typ}, {L: "nil", V: []byte(nil)}, {L: "empty", V: []byte{}}, {L: "300B", V: long}}
	if c14Deep {
		m = append(m, c14Val{L: "0x00", V: []byte{0}})
	}
	return m
}

func c14LocMenu() []c14Val {
	m := []c14Val{
		{L: "0-0", V: common.Location{0, 0}},
		{L: "0-1", V: common.Location{0, 1}},
		{L: "1-0", V: common.Location{1, 0}},
	}
	if c14Deep {
		m = append(m, c14Val{L: "2-2", V: common.Location{2, 2}}, c14Val{L: "15-15", V: common.Location{15, 15}})
	}
	return m
}

// c14Addr20 builds 20 address bytes: byte0 = zone prefix of loc (or other), byte1 selects the ledger.
func c14Addr20(loc common.Location, qi bool, tag byte) []byte {
	b := make([]byte, 20)
	b[0] = loc[0]<<4 | loc[1]
	if qi {
		b[1] = 0x80 | (tag & 0x0f)
	} else {
		b[1] = tag & 0x7f
	}
	for i := 2; i < 20; i++ {
		b[i] = tag + byte(i)*3
	}
	return b
}

// address menus are symbolic: resolved against the node location at build time.
type c14AddrSym string

const (
	c14AInQuai  c14AddrSym = "internal-quai"
	c14AInQi    c14AddrSym = "internal-qi"
	c14AExtQuai c14AddrSym = "external-quai"
	c14AExtQi   c14AddrSym = "external-qi"
	c14AZero    c14AddrSym = "zero20"
	c14ANilIn   c14AddrSym = "nil-inner"
	c14ANilPtr  c14AddrSym = "nil-pointer"
)

func c14OtherLoc(loc common.Location) common.Location {
	return common.Location{(loc[0] + 1) % 3, (loc[1] + 2) % 3}
}

func c14ResolveAddr(sym c14AddrSym, loc common.Location, tag byte) (a common.Address, isNilPtr bool) {
	switch sym {
	case c14AInQuai:
		return common.BytesToAddress(c14Addr20(loc, false, tag), loc), false
	case c14AInQi:
		return common.BytesToAddress(c14Addr20(loc, true, tag), loc), false
	case c14AExtQuai:
		return common.BytesToAddress(c14Addr20(c14OtherLoc(loc), false, tag), loc), false
	case c14AExtQi:
		return common.BytesToAddress(c14Addr20(c14OtherLoc(loc), true, tag), loc), false
	case c14AZero:
		return common.BytesToAddress(make([]byte, 20), loc), false
	case c14ANilIn:
		return common.Address{}, false
	case c14ANilPtr:
		return common.Address{}, true
	}
	panic("c14: bad address symbol " + string(sym))
}

func c14AddrMenu(first c14AddrSym, withNilPtr, nilPtrIll, withNilInner, nilInnerIll bool) []c14Val {
	all := []c14AddrSym{c14AInQuai, c14AInQi, c14AExtQuai, c14AExtQi, c14AZero}
	m := []c14Val{{L: string(first), V: first}}
	for _, a := range all {
		if a != first {
			m = append(m, c14Val{L: string(a), V: a})
		}
	}
	if withNilPtr {
		m = append(m, c14Val{L: string(c14ANilPtr), V: c14ANilPtr, Ill: nilPtrIll})
	}
	if withNilInner {
		m = append(m, c14Val{L: string(c14ANilIn), V: c14ANilIn, Ill: nilInnerIll})
	}
	return m
}

// ---------------------------------------------------------------------------------------------
// driver

func runC14(c *vx.Ctx) {
	debug.SetGCPercent(400)
	if pf := os.Getenv("C14_CPUPROFILE"); pf != "" && c.NShards <= 1 {
		if f, err := os.Create(pf); err == nil {
			pprof.StartCPUProfile(f)
			defer pprof.StopCPUProfile()
		}
	}
	c.Rule = "per subject type: baseline + ALL variants with <=k field deviations over per-field menus {nil/absent, zero/empty, typical, max width, wire-integer boundary, each node location}; every variant through every encoding path (proto, RLP, JSON-RPC, MarshalJSON, rawdb accessors, p2p envelope) with the round-trip oracle; outcome class = path x {ok, ok:normalised, reject:<error class>, ill:*}; plus a global same-hash=>same-content pass per hash domain"
	c.Assume("well-formed = what the public constructors/decoders can produce; menu values marked ill-formed (nil where no constructor yields nil, out-of-range signature values, wrong-length public keys...) are only required not to be silently mangled by the fixpoint clause after a decoder accepted them")
	c.Assume("equal object = equal content through the public accessors with nil identified with zero/empty (ref dump); internal/external classification of an address is a function of its bytes and the decoding node location and is not part of the content (C16 covers it)")
	c.Assume("post-KawPow WorkObjectHeader.Hash() is by design the hash of the AuxPow alone; the AuxPow coinbase commits to SealHash (checked by the engine, C08), so identity and the collision clause are evaluated on the pair (Hash, SealHash)")
	k := 2
	if c.Thorough() {
		k = 3
		c14Deep = true
	}
	for si, s := range c14Subjects {
		if !c.Wants(s.Name) {
			continue
		}
		p := c.Part(s.Name)
		fields := s.F()
		kk := k
		if c.Thorough() && s.ThoroughK > 0 {
			kk = s.ThoroughK
		}
		p.Bound("max_deviations", kk)
		p.Bound("fields", len(fields))
		nm := 0
		for _, f := range fields {
			nm += len(f.M) - 1
		}
		p.Bound("menu_values", nm)
		names := []string{}
		for _, pa := range s.Paths {
			names = append(names, pa.Name)
		}
		p.Bound("paths", names)
		var i int64
		t0 := time.Now()
		base := int64(si) * 7919
		reported := map[string]bool{}
		min := &c14Min{s: s, fields: fields, fail: map[string]map[string]bool{}, pass: map[string]bool{}}
		c14Enumerate(fields, kk, func(choice []int, ndev int) bool {
			i++
			mine := c.Mine(base + i)
			if !mine {
				return true
			}
			if c.Expired() {
				p.Incomplete(fmt.Sprintf("deadline inside %s at variant %d", s.Name, i))
				return false
			}
			ch := append([]int{}, choice...)
			res := c14RunCase(s, fields, ch, "")
			if res.Harness != "" {
				c.HarnessError(fmt.Sprintf("%s [%s]: %s", s.Name, c14DevString(c14Devs(fields, ch)), res.Harness))
				return false
			}
			min.record(ch, "", res)
			if mine {
				p.Transitions++
				p.Traces += int64(len(res.Outcomes))
				if int64(ndev) > p.MaxDepth {
					p.MaxDepth = int64(ndev)
				}
				for _, o := range res.Outcomes {
					p.Outcome(o)
				}
			}
			for _, f := range res.Fails {
				if mine {
					p.Outcome(f.Path + ":VIOLATION")
				}
				// A failure is reported under its MINIMAL deviation set: if the same failure class (same
				// path, check and detail) already occurs with a proper subset of the deviations (down to
				// the baseline), it is the same input class and is not keyed again.
				var devFields []string
				for fi, cc := range ch {
					if cc != 0 {
						devFields = append(devFields, fields[fi].N)
					}
				}
				if !min.minimal(ch, f.Path, f.Class) {
					continue
				}
				at := "baseline"
				if len(devFields) > 0 {
					at = strings.Join(devFields, "+")
				}
				fkey := f.Key
				if f.AtDev {
					fkey = f.Key + "@" + at
				}
				if reported[fkey] {
					continue
				}
				reported[fkey] = true
				f := f
				if c.Confirm(f.Desc, func() string {
					r := c14RunCase(s, fields, ch, f.Path)
					for _, g := range r.Fails {
						if g.Key == f.Key {
							return g.Key
						}
					}
					return ""
				}) {
					c.Violate(s.Name, fkey, f.Desc, c14Replay{Subject: s.Name, Path: f.Path, Dev: c14Devs(fields, ch), Key: f.Key})
				}
			}
			if mine && len(res.Fails) == 0 && ndev == 2 && !res.Ill {
				p.Sample(fmt.Sprintf("%s [%s] -> %v", s.Name, c14DevString(c14Devs(fields, ch)), res.Outcomes))
			}
			return true
		})
		if c.Shard == 0 {
			p.States = i
			p.Bound("shard0_seconds", float64(time.Since(t0).Milliseconds())/1000)
		}
	}
	c14Collisions(c, k)
}

// c14Min decides whether a failing deviation set is minimal. Failing executions are memoised per
// (deviation set, path); a subset that this shard has not executed itself is executed on demand.
type c14Min struct {
	s      *c14Subject
	fields []c14Field
	fail   map[string]map[string]bool // "devs|path" -> failure classes observed
	pass   map[string]bool            // "devs|path" looked up and found passing
}

func (m *c14Min) record(ch []int, onlyPath string, res c14CaseResult) {
	dev := c14DevString(c14Devs(m.fields, ch))
	for _, f := range res.Fails {
		k := dev + "|" + f.Path
		if m.fail[k] == nil {
			m.fail[k] = map[string]bool{}
		}
		m.fail[k][f.Class] = true
	}
}

func (m *c14Min) fails(ch []int, path, class string) bool {
	k := c14DevString(c14Devs(m.fields, ch)) + "|" + path
	if cl, ok := m.fail[k]; ok {
		return cl[class]
	}
	if m.pass[k] {
		return false
	}
	res := c14RunCase(m.s, m.fields, ch, path)
	m.record(ch, path, res)
	if cl, ok := m.fail[k]; ok {
		return cl[class]
	}
	m.pass[k] = true
	return false
}

func (m *c14Min) minimal(ch []int, path, class string) bool {
	var pos []int
	for i, c := range ch {
		if c != 0 {
			pos = append(pos, i)
		}
	}
	n := len(pos)
	if n == 0 {
		return true
	}
	// proper subsets, smallest first (mask = positions kept)
	for size := 0; size < n; size++ {
		for mask := 0; mask < 1<<n; mask++ {
			cnt := 0
			for b := 0; b < n; b++ {
				if mask>>b&1 == 1 {
					cnt++
				}
			}
			if cnt != size {
				continue
			}
			sub := make([]int, len(ch))
			for b := 0; b < n; b++ {
				if mask>>b&1 == 1 {
					sub[pos[b]] = ch[pos[b]]
				}
			}
			if m.fails(sub, path, class) {
				return false
			}
		}
	}
	return true
}

// c14Collisions: over the whole enumerated set of each hash domain, equal hash => equal content.
// One shard owns one domain (the whole set has to be in one map).
func c14Collisions(c *vx.Ctx, k int) {
	if !c.Wants("collisions") {
		return
	}
	doms := []string{}
	seen := map[string]bool{}
	for _, s := range c14Subjects {
		if s.Domain != "" && s.Hash != nil && !seen[s.Domain] {
			seen[s.Domain] = true
			doms = append(doms, s.Domain)
		}
	}
	p := c.Part("collisions")
	p.Bound("domains", doms)
	for di, d := range doms {
		n := c.NShards
		if n < 1 {
			n = 1
		}
		if (di+int(c.Seed))%n != c.Shard {
			continue
		}
		type ent struct {
			ref  [32]byte
			subj *c14Subject
			ch   []int
		}
		m := map[string]ent{}
		for _, s := range c14Subjects {
			if s.Domain != d || s.Hash == nil {
				continue
			}
			fields := s.F()
			idx := map[string]int{}
			for i, f := range fields {
				idx[f.N] = i
			}
			stop := false
			kk := k
			if c.Thorough() && s.ThoroughK > 0 {
				kk = s.ThoroughK
			}
			c14Enumerate(fields, kk, func(choice []int, ndev int) bool {
				if c.Expired() {
					p.Incomplete("deadline in collision pass of domain " + d)
					stop = true
					return false
				}
				for i, cc := range choice {
					if fields[i].M[cc].Ill {
						return true
					}
				}
				vals := &c14Vals{idx: idx, f: fields, c: choice}
				env := &c14Env{Loc: vals.loc()}
				var h, r string
				var ill bool
				perr := vx.Guard(func() {
					var o any
					o, ill = s.Build(env, vals)
					if ill {
						return
					}
					h = s.Hash(env, o)
					r = s.Ref(env, o)
				})
				if perr != "" || ill {
					return true
				}
				p.Evals++
				rs := sha256.Sum256([]byte(r))
				if old, ok := m[h]; ok {
					if old.ref != rs {
						p.Outcome("COLLISION")
						// rebuild both for the description
						of := old.subj.F()
						desc := fmt.Sprintf("two objects with different content share hash %s: %s [%s] and %s [%s]", h,
							old.subj.Name, c14DevString(c14Devs(of, old.ch)), s.Name, c14DevString(c14Devs(fields, choice)))
						n := c14CollisionField(old.subj, old.ch, s, choice)
						key := fmt.Sprintf("%s:collision:%s", d, n)
						ch := append([]int{}, choice...)
						oldch := old.ch
						olds := old.subj
						if c.Confirm(desc, func() string { return c14CollisionReplay(olds, oldch, s, ch) }) {
							c.Violate("collisions", key, desc, c14Replay{Subject: s.Name, Dev: c14Devs(fields, ch), Key: key,
								Other: c14Devs(of, oldch), Path: "collision-with:" + olds.Name})
						}
					} else {
						p.Outcome("same-hash-same-content(" + s.Name + ")")
					}
					return true
				}
				m[h] = ent{ref: rs, subj: s, ch: append([]int{}, choice...)}
				p.Outcome("distinct(" + s.Name + ")")
				return true
			})
			if stop {
				break
			}
		}
		p.States += int64(len(m))
	}
}

func c14BuildOne(s *c14Subject, choice []int) (h, r string) {
	fields := s.F()
	idx := map[string]int{}
	for i, f := range fields {
		idx[f.N] = i
	}
	vals := &c14Vals{idx: idx, f: fields, c: choice}
	env := &c14Env{Loc: vals.loc()}
	vx.Guard(func() {
		o, _ := s.Build(env, vals)
		h = s.Hash(env, o)
		r = s.Ref(env, o)
	})
	return
}

func c14CollisionField(s1 *c14Subject, c1 []int, s2 *c14Subject, c2 []int) string {
	_, r1 := c14BuildOne(s1, c1)
	_, r2 := c14BuildOne(s2, c2)
	n, _, _ := c14FirstDiff(r1, r2)
	return c14FieldClass(n)
}

func c14CollisionReplay(s1 *c14Subject, c1 []int, s2 *c14Subject, c2 []int) string {
	h1, r1 := c14BuildOne(s1, c1)
	h2, r2 := c14BuildOne(s2, c2)
	if h1 != "" && h1 == h2 && r1 != r2 {
		n, a, b := c14FirstDiff(r1, r2)
		return fmt.Sprintf("hash %s shared by objects differing in %s (%s vs %s)", h1, n, a, b)
	}
	return ""
}

func c14SubjectByName(n string) *c14Subject {
	for _, s := range c14Subjects {
		if s.Name == n {
			return s
		}
	}
	return nil
}

func replayC14(c *vx.Ctx, v vx.Violation) string {
	raw, _ := jsonMarshal(v.Replay)
	c14Deep = true // the thorough menus are a superset of the quick ones
	var r c14Replay
	if err := jsonUnmarshal(raw, &r); err != nil {
		return "bad replay: " + err.Error()
	}
	s := c14SubjectByName(r.Subject)
	if s == nil {
		return "harness: unknown subject " + r.Subject
	}
	fields := s.F()
	choice, err := c14ChoiceFromDevs(fields, r.Dev)
	if err != nil {
		return "harness: " + err.Error()
	}
	if strings.HasPrefix(r.Path, "collision-with:") {
		s1 := c14SubjectByName(strings.TrimPrefix(r.Path, "collision-with:"))
		if s1 == nil {
			return "harness: unknown subject in " + r.Path
		}
		c1, err := c14ChoiceFromDevs(s1.F(), r.Other)
		if err != nil {
			return "harness: " + err.Error()
		}
		return c14CollisionReplay(s1, c1, s, choice)
	}
	res := c14RunCase(s, fields, choice, r.Path)
	for _, f := range res.Fails {
		if f.Key == r.Key || r.Key == "" {
			return f.Key + "\n  " + f.Desc
		}
	}
	return ""
}
