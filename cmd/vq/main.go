// vq: single harness binary; first argument selects the property check.
package main

import (
	"fmt"
	"io"
	"os"
	"sort"

	"github.com/dominant-strategies/go-quai/log"

	"github.com/dominant-strategies/go-quai/verifshim/vx"
)

var registry = map[string]vx.CheckSpec{}

func register(s vx.CheckSpec) { registry[s.ID] = s }

func main() {
	// package log creates a global logger that lazily opens <cwd>/nodelogs/global.log: keep /repo clean
	log.Global.SetOutput(io.Discard)
	if len(os.Args) < 2 {
		ids := []string{}
		for k := range registry {
			ids = append(ids, k)
		}
		sort.Strings(ids)
		fmt.Fprintln(os.Stderr, "usage: vq <id> [--tier quick|thorough] [--replay f]; ids:", ids)
		os.Exit(2)
	}
	spec, ok := registry[os.Args[1]]
	if !ok {
		fmt.Fprintln(os.Stderr, "unknown check", os.Args[1])
		os.Exit(2)
	}
	os.Exit(vx.Main(spec, os.Args[2:]))
}
