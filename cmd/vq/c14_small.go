package main

// C14 subjects: small p2p payloads (block hash) and hash lists stored by rawdb (manifest, interlink
// hashes).

import (
	"fmt"

	"github.com/dominant-strategies/go-quai/common"
	"github.com/dominant-strategies/go-quai/core/rawdb"
	"github.com/dominant-strategies/go-quai/core/types"
	"github.com/dominant-strategies/go-quai/ethdb"
	"github.com/dominant-strategies/go-quai/p2p/pb"
	"google.golang.org/protobuf/proto"
)

type c14HashMsg struct {
	ID   uint32
	Hash common.Hash
}

func init() {
	c14Register(&c14Subject{
		Name: "p2p-hash",
		Fields: func() []c14Field {
			return []c14Field{{N: "loc", M: c14LocMenu()},
				{N: "id", M: []c14Val{{L: "9", V: uint64(9)}, {L: "0", V: uint64(0)}, {L: "65536", V: uint64(65536)}, {L: "max32", V: uint64(^uint32(0))}}},
				{N: "hash", M: c14HashMenu("p2p-hash")},
			}
		},
		Build: func(e *c14Env, v *c14Vals) (any, bool) {
			return &c14HashMsg{ID: uint32(v.u64("id")), Hash: v.hash("hash")}, false
		},
		Ref: func(e *c14Env, o any) string {
			m := o.(*c14HashMsg)
			r := c14NewRef()
			r.u("id", uint64(m.ID))
			r.h("hash", m.Hash)
			return r.String()
		},
		Paths: []c14Path{
			{Name: "p2p-response",
				Enc: func(e *c14Env, o any) ([]byte, error) {
					m := o.(*c14HashMsg)
					return pb.EncodeQuaiResponse(m.ID, e.Loc, &common.Hash{}, m.Hash)
				},
				Dec: func(e *c14Env, b []byte) (any, error) {
					msg, err := pb.DecodeQuaiMessage(b)
					if err != nil {
						return nil, err
					}
					id, v, err := pb.DecodeQuaiResponse(msg.GetResponse())
					if err != nil {
						return nil, err
					}
					h, ok := v.(common.Hash)
					if !ok {
						return nil, fmt.Errorf("hash response decoded as %T", v)
					}
					return &c14HashMsg{ID: id, Hash: h}, nil
				}},
			{Name: "gossip",
				Proj: func(e *c14Env, o any) any { return &c14HashMsg{Hash: o.(*c14HashMsg).Hash} },
				Enc:  func(e *c14Env, o any) ([]byte, error) { return pb.ConvertAndMarshal(o.(*c14HashMsg).Hash) },
				Dec: func(e *c14Env, b []byte) (any, error) {
					var out interface{}
					if err := pb.UnmarshalAndConvert(b, e.Loc, &out, common.Hash{}); err != nil {
						return nil, err
					}
					return &c14HashMsg{Hash: out.(common.Hash)}, nil
				}},
		},
	})
}

type c14HashList struct{ L []common.Hash }

func init() {
	c14Register(&c14Subject{
		Name: "hashlist",
		Fields: func() []c14Field {
			return []c14Field{{N: "loc", M: c14LocMenu()[:1]},
				{N: "len", M: []c14Val{{L: "3", V: uint64(3)}, {L: "1", V: uint64(1)}, {L: "17", V: uint64(17)}, {L: "0", V: uint64(0), Ill: true}}},
				{N: "h[0]", M: c14HashMenu("hl0")},
				{N: "h[last]", M: c14HashMenu("hl-last")},
			}
		},
		Build: func(e *c14Env, v *c14Vals) (any, bool) {
			n := int(v.u64("len"))
			l := make([]common.Hash, n)
			for i := range l {
				l[i] = c14HashOf(fmt.Sprintf("hl%d", i))
			}
			if n > 0 {
				l[n-1] = v.hash("h[last]")
				l[0] = v.hash("h[0]")
			}
			return &c14HashList{L: l}, false
		},
		Ref: func(e *c14Env, o any) string {
			r := c14NewRef()
			l := o.(*c14HashList).L
			r.u("len", uint64(len(l)))
			for i, h := range l {
				r.h(fmt.Sprintf("h[%d]", i), h)
			}
			return r.String()
		},
		Paths: []c14Path{
			{Name: "proto-manifest",
				Enc: func(e *c14Env, o any) ([]byte, error) {
					p, err := types.BlockManifest(o.(*c14HashList).L).ProtoEncode()
					if err != nil {
						return nil, err
					}
					return proto.Marshal(p)
				},
				Dec: func(e *c14Env, b []byte) (any, error) {
					p := new(types.ProtoManifest)
					if err := proto.Unmarshal(b, p); err != nil {
						return nil, err
					}
					var m types.BlockManifest
					if err := m.ProtoDecode(p); err != nil {
						return nil, err
					}
					return &c14HashList{L: m}, nil
				}},
			{Name: "rawdb-manifest",
				Enc: func(e *c14Env, o any) ([]byte, error) {
					return c14DBEnc(e.Loc, func(db ethdb.Database) error {
						rawdb.WriteManifest(db, c14WoKey(), types.BlockManifest(o.(*c14HashList).L))
						return nil
					})
				},
				Dec: func(e *c14Env, b []byte) (any, error) {
					return c14DBDec(e.Loc, b, func(db ethdb.Database) (any, error) {
						m := rawdb.ReadManifest(db, c14WoKey())
						if m == nil {
							return nil, errC14Nil
						}
						return &c14HashList{L: m}, nil
					})
				}},
			{Name: "rawdb-interlinkHashes",
				Enc: func(e *c14Env, o any) ([]byte, error) {
					return c14DBEnc(e.Loc, func(db ethdb.Database) error {
						rawdb.WriteInterlinkHashes(db, c14WoKey(), common.Hashes(o.(*c14HashList).L))
						return nil
					})
				},
				Dec: func(e *c14Env, b []byte) (any, error) {
					return c14DBDec(e.Loc, b, func(db ethdb.Database) (any, error) {
						m := rawdb.ReadInterlinkHashes(db, c14WoKey())
						if m == nil {
							return nil, errC14Nil
						}
						return &c14HashList{L: m}, nil
					})
				}},
		},
	})
}
