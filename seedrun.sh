#!/bin/bash
# seedrun.sh <seed-dir> <check-id> [vcheck args]
# Runs a check against a seeded change WITHOUT touching /repo: the files the patch modifies are taken
# from a patched scratch copy through the build overlay (same build as `git -C /repo apply` would give).
# <seed-dir> = /verif/seeded/<id> (uses patch.diff) ; results/evidence go to a temp dir.
set -u
V=$(cd "$(dirname "$0")" && pwd)
sd=$(cd "$1" && pwd); chk=$2; shift 2
tmp=$(mktemp -d /tmp/seedrun.XXXXXX)
trap 'rm -rf $tmp' EXIT
files=$(grep '^+++ b/' $sd/patch.diff | sed 's#^+++ b/##')
mkdir -p $tmp/src
( cd /repo && for f in $files; do mkdir -p $tmp/src/$(dirname $f); cp $f $tmp/src/$f; done )
( cd $tmp/src && git init -q . 2>/dev/null; git apply --unsafe-paths $sd/patch.diff ) || { echo "seedrun: patch does not apply to /repo's tree"; exit 2; }
python3 - "$tmp" $files <<'PY'
import json,sys,os
tmp=sys.argv[1]
rep={os.path.join('/repo',f): os.path.join(tmp,'src',f) for f in sys.argv[2:]}
json.dump({"Replace":rep}, open(os.path.join(tmp,'extra.json'),'w'))
PY
VERIF_EXTRA_OVERLAY=$tmp/extra.json VERIF_OUT=$tmp/out $V/vcheck $chk "$@"
rc=$?
echo "seedrun: $chk on $(basename $sd): exit $rc"
exit $rc
