//go:build verif

package trie

import "strings"

// Access shim for check C18 (read-only views of unexported trie state; nothing here changes
// behaviour of the code under test).

// VerifC18Shape renders the in-memory representation of a trie: n = nil, v = value, h = unresolved
// hash reference, S(..) short node, F(..) full node; a node that carries a cached hash is suffixed
// with '#', a dirty one with '*'. Two tries with the same content may have different shapes
// (resolved / unresolved / hashed / dirty) — that is exactly what the history exploration varies.
func VerifC18Shape(t *Trie) string {
	var sb strings.Builder
	c18shape(&sb, t.root)
	return sb.String()
}

func c18shape(sb *strings.Builder, n node) {
	switch n := n.(type) {
	case nil:
		sb.WriteByte('n')
	case valueNode:
		sb.WriteByte('v')
	case hashNode:
		sb.WriteByte('h')
	case *shortNode:
		sb.WriteString("S(")
		c18shape(sb, n.Val)
		sb.WriteByte(')')
		c18flags(sb, n.flags)
	case *fullNode:
		sb.WriteString("F(")
		for _, c := range n.Children {
			if c != nil {
				c18shape(sb, c)
			}
		}
		sb.WriteByte(')')
		c18flags(sb, n.flags)
	default:
		sb.WriteByte('?')
	}
}

func c18flags(sb *strings.Builder, f nodeFlag) {
	if f.hash != nil {
		sb.WriteByte('#')
	}
	if f.dirty {
		sb.WriteByte('*')
	}
}

// VerifC18Inner exposes the raw trie wrapped by a SecureTrie (for VerifC18Shape only).
func VerifC18Inner(t *SecureTrie) *Trie { return &t.trie }

// VerifC18Dirties is the number of nodes in the dirty cache (excluding the meta root).
func VerifC18Dirties(db *Database) int {
	db.lock.RLock()
	defer db.lock.RUnlock()
	return len(db.dirties) - 1
}

// VerifC18Fingerprint serialises the complete in-memory representation of the trie (node kinds,
// keys, values, cached hashes, dirty flags) and reports whether it contains unresolved hash
// references (i.e. whether reading it may touch the database). Prove is a pure function of this
// representation when nothing is unresolved.
func VerifC18Fingerprint(t *Trie) (fp []byte, unresolved bool) {
	var b []byte
	var walk func(n node)
	put := func(tag byte, x []byte) {
		b = append(b, tag, byte(len(x)>>8), byte(len(x)))
		b = append(b, x...)
	}
	fl := func(f nodeFlag) {
		if f.dirty {
			b = append(b, 'd')
		}
		put('#', f.hash)
	}
	walk = func(n node) {
		switch n := n.(type) {
		case nil:
			b = append(b, 'n')
		case valueNode:
			put('v', n)
		case hashNode:
			unresolved = true
			put('h', n)
		case *shortNode:
			put('S', n.Key)
			fl(n.flags)
			walk(n.Val)
		case *fullNode:
			b = append(b, 'F')
			fl(n.flags)
			for _, c := range n.Children {
				walk(c)
			}
		default:
			b = append(b, '?')
			unresolved = true
		}
	}
	walk(t.root)
	return b, unresolved
}
