//go:build verif

package types

import "time"

// VerifC19SetTime overrides the "first seen" time stamp of a transaction (the pool's lifetime
// eviction of pending transactions compares it with TxPoolConfig.Lifetime).
func (tx *Transaction) VerifC19SetTime(t time.Time) { tx.time = t }

// VerifC19Clone returns an independent transaction object with the same consensus content.
// keepCaches=true carries the hash/size/sender caches over (what a transaction looks like after
// the p2p layer has pre-validated it); false yields a cold object whose hash and sender are
// derived from the signature by the code under test.
func (tx *Transaction) VerifC19Clone(keepCaches bool) *Transaction {
	cpy := &Transaction{inner: tx.inner.copy(), time: time.Now()}
	if keepCaches {
		if h := tx.hash.Load(); h != nil {
			cpy.hash.Store(h)
		}
		if s := tx.size.Load(); s != nil {
			cpy.size.Store(s)
		}
		if f := tx.from.Load(); f != nil {
			cpy.from.Store(f)
		}
	}
	return cpy
}
