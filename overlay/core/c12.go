//go:build verif

package core

// C12 access shim: the unexported per-transaction entry point of the block processor.

import (
	"math/big"

	"github.com/dominant-strategies/go-quai/common"
	"github.com/dominant-strategies/go-quai/core/state"
	"github.com/dominant-strategies/go-quai/core/types"
	"github.com/dominant-strategies/go-quai/core/vm"
	"github.com/dominant-strategies/go-quai/log"
	"github.com/dominant-strategies/go-quai/params"
)

// VerifC12ApplyTransaction calls applyTransaction (parent block and chain context are not used by it).
func VerifC12ApplyTransaction(msg types.Message, config *params.ChainConfig, gp *types.GasPool, statedb *state.StateDB, blockNumber *big.Int, blockHash common.Hash, tx *types.Transaction, usedGas, usedState *uint64, evm *vm.EVM, etxRLimit, etxPLimit *uint64, logger *log.Logger) (*types.Receipt, *big.Int, error) {
	return applyTransaction(msg, nil, config, nil, gp, statedb, blockNumber, blockHash, tx, usedGas, usedState, evm, etxRLimit, etxPLimit, logger)
}
