//go:build verif

package core

// Two-zone mininode: prime + region 0 + zones [0,0] and [0,1] in one process (expansion number 1).
//
// Same construction as node.go (real core.Slice instances on in-memory databases, injected engine
// whose proof-of-work hash is the header's MixHash, blocks assembled by the node's own workers,
// sealed by the harness, passed through the wire form and appended through Slice.Append /
// HeaderChain.SetCurrentHeader), with these differences:
//
//   * every chain starts from the genesis block written by SetupGenesisBlockWithOverride with
//     startingExpansionNumber = 1 ("experiment" start of cmd/utils, the only way this tree can run
//     more than one zone: the dynamic expansion trigger is disabled by TREE_EXPANSION_THRESHOLD =
//     MaxUint16), currentExpansionNumber = 1, slicesRunning = {[0,0],[0,1]};
//   * the region has two subordinates; the prime and region workers are shared, each zone's part of
//     a pending header comes from that zone's worker;
//   * heads are tracked per chain (prime, region, zone 0, zone 1) instead of per context.

import (
	"errors"
	"fmt"
	"math/big"
	"os"
	"sort"
	"time"

	"github.com/dominant-strategies/go-quai/common"
	"github.com/dominant-strategies/go-quai/consensus"
	"github.com/dominant-strategies/go-quai/core/rawdb"
	"github.com/dominant-strategies/go-quai/core/types"
	"github.com/dominant-strategies/go-quai/core/vm"
	"github.com/dominant-strategies/go-quai/ethdb"
	"github.com/dominant-strategies/go-quai/log"
	"github.com/dominant-strategies/go-quai/params"
	orderedmap "github.com/wk8/go-ordered-map/v2"
	"google.golang.org/protobuf/proto"
)

const V2Expansion = 1

func V2ZoneLoc(z int) common.Location { return common.Location{0, byte(z)} }

type VNode2Config struct {
	// Alloc: Quai accounts credited by block 1 of zone [0,0] (the real GenAllocs path; go-quai applies
	// genesis allocations in zone [0,0] only).
	Alloc        map[common.Address]*big.Int
	QuaiCoinbase [2]common.Address
	QiCoinbase   [2]common.Address
	// NoGenesisParentSeam switches off the one answer the harness gives on behalf of the dominant
	// chain (see v2Dom.GetPrimeBlock); used by the probe that documents why it is needed.
	NoGenesisParentSeam bool
}

type VNode2 struct {
	Cfg    VNode2Config
	Prime  *Slice
	Region *Slice
	Zone   [2]*Slice
	DBP    ethdb.Database
	DBR    ethdb.Database
	DBZ    [2]ethdb.Database
	HeadP  *types.WorkObject
	HeadR  *types.WorkObject
	HeadZ  [2]*types.WorkObject
	Logger *log.Logger
	Gen    common.Hash
}

// v2Dom is what a zone sees as its dominant chain: the region, through the same thin adapter as in
// the one-zone node, plus one seam.
//
// Seam: HeaderChain.ComputeExpansionNumber (called by the zone worker and by zone header
// verification) treats "the prime terminus is the genesis block" specially only for location [0,0];
// any other zone goes on to ask the dominant chain for the PARENT of the genesis block (hash zero),
// which no chain has, and fails with "parent of prime terminus is nil". Under a starting expansion
// number zone [0,1] could therefore never build on the genesis block. The adapter answers that one
// question (hash zero) with the genesis block itself, which makes [0,1] compute the genesis
// expansion number exactly as [0,0] does. Nothing on the ETX path depends on it.
type v2Dom struct {
	vSub
	prime *Slice
	seam  bool
}

func (d v2Dom) GetPrimeBlock(h common.Hash) *types.WorkObject {
	if d.seam && h == (common.Hash{}) {
		return d.prime.hc.GetBlockByHash(d.prime.hc.GetGenesisHashes()[0])
	}
	return d.sl.GetPrimeBlock(h)
}

func v2MkSlice(cfg *VNode2Config, loc common.Location, db ethdb.Database, logger *log.Logger) (*Slice, common.Hash, error) {
	vChdir.Do(func() {
		os.Chdir(os.Getenv("VERIF_REPO"))
		if _, err := os.Stat("VERSION"); err != nil {
			os.Chdir("/repo")
		}
	})
	cc := *params.ProgpowLocalChainConfig
	cc.Location = loc
	gen := &Genesis{Config: &cc, Nonce: 0, ExtraData: []byte{}, GasLimit: 12000000, Difficulty: big.NewInt(1000)}
	_, ghash, err := SetupGenesisBlockWithOverride(db, gen, 0, nil, loc, V2Expansion, logger)
	if err != nil {
		return nil, common.Hash{}, fmt.Errorf("genesis: %w", err)
	}
	cc.DefaultGenesisHash = ghash
	pow := params.PowConfig{PowMode: params.ModeNormal, DurationLimit: big.NewInt(5), GasCeil: 50000000, MinDifficulty: big.NewInt(1000), NodeLocation: loc}
	for addr, bal := range cfg.Alloc {
		sched := orderedmap.New[uint64, *big.Int]()
		sched.Set(0, new(big.Int).Set(bal))
		pow.GenAllocs = append(pow.GenAllocs, params.GenesisAccount{Address: addr, Award: new(big.Int).Set(bal), BalanceSchedule: sched})
	}
	sort.Slice(pow.GenAllocs, func(i, j int) bool { return pow.GenAllocs[i].Address.Hex() < pow.GenAllocs[j].Address.Hex() })
	mcfg := &Config{GasCeil: 50000000, GasPrice: big.NewInt(1), Recommit: time.Hour}
	if loc.Context() == common.ZONE_CTX {
		mcfg.QuaiCoinbase, mcfg.QiCoinbase = cfg.QuaiCoinbase[loc.Zone()], cfg.QiCoinbase[loc.Zone()]
	} else {
		mcfg.QuaiCoinbase, mcfg.QiCoinbase = cfg.QuaiCoinbase[0], cfg.QiCoinbase[0]
	}
	txc := DefaultTxPoolConfig
	txc.Journal = ""
	txc.NoLocals = true
	txc.ReorgFrequency = time.Hour
	txc.Lifetime = 100 * time.Hour
	txc.Rejournal = time.Hour
	var lim uint64 = 0
	eng := []consensus.Engine{VFakeEngine{}, VFakeEngine{}}
	running := []common.Location{V2ZoneLoc(0), V2ZoneLoc(1)}
	sl, err := NewSlice(db, mcfg, pow, &txc, &lim, &cc, running, V2Expansion, nil, eng, &CacheConfig{TrieCleanLimit: 16, TrieDirtyLimit: 16, SnapshotLimit: 0}, vm.Config{}, gen, logger)
	if err != nil {
		return nil, common.Hash{}, err
	}
	// stop the zone worker's 1-second asyncStateLoop (see node.go)
	if w := sl.miner.worker; loc.Context() == common.ZONE_CTX && sl.ProcessingState() {
		close(w.exitCh)
		w.wg.Wait()
		sl.hc.headermu.Lock()
		sl.hc.headermu.Unlock()
		w.exitCh = make(chan struct{})
	}
	return sl, ghash, nil
}

func VNewNode2(cfg VNode2Config) (*VNode2, error) {
	n := &VNode2{Cfg: cfg, Logger: VNewLogger()}
	mk := func(loc common.Location) (*Slice, ethdb.Database, error) {
		db := ethdb.Database(vLocDB{Database: rawdb.NewMemoryDatabase(n.Logger), loc: loc})
		sl, gh, err := v2MkSlice(&cfg, loc, db, n.Logger)
		if err != nil {
			return nil, nil, fmt.Errorf("%v: %w", loc, err)
		}
		if n.Gen != (common.Hash{}) && n.Gen != gh {
			return nil, nil, fmt.Errorf("harness: genesis hash of %v differs from the other chains'", loc)
		}
		n.Gen = gh
		return sl, db, nil
	}
	var err error
	if n.Prime, n.DBP, err = mk(common.Location{}); err != nil {
		return nil, err
	}
	if n.Region, n.DBR, err = mk(common.Location{0}); err != nil {
		return nil, err
	}
	for z := 0; z < 2; z++ {
		if n.Zone[z], n.DBZ[z], err = mk(V2ZoneLoc(z)); err != nil {
			return nil, err
		}
	}
	n.HeadP, n.HeadR = n.Prime.hc.CurrentHeader(), n.Region.hc.CurrentHeader()
	n.Prime.SetSubInterface(vSub{n.Region}, common.Location{0})
	n.Region.SetDomInterface(vSub{n.Prime})
	for z := 0; z < 2; z++ {
		n.HeadZ[z] = n.Zone[z].hc.CurrentHeader()
		n.Region.SetSubInterface(vSub{n.Zone[z]}, V2ZoneLoc(z))
		n.Zone[z].SetDomInterface(v2Dom{vSub: vSub{n.Region}, prime: n.Prime, seam: z != 0 && !cfg.NoGenesisParentSeam})
	}
	deadline := time.Now().Add(60 * time.Second)
	for n.Prime.ReadBestPh() == nil {
		if time.Now().After(deadline) {
			return nil, errors.New("harness: prime genesis pending header never published")
		}
		time.Sleep(100 * time.Microsecond)
	}
	return n, nil
}

func (n *VNode2) Close() {
	stop := func(sl *Slice, head *types.WorkObject) {
		if sl == nil {
			return
		}
		defer func() { recover() }()
		sl.WriteBestPh(head)
		sl.Stop()
	}
	stop(n.Prime, n.HeadP)
	stop(n.Region, n.HeadR)
	stop(n.Zone[0], n.HeadZ[0])
	stop(n.Zone[1], n.HeadZ[1])
}

// chains a block mined in zone z with the given order belongs to, dominant first
func (n *VNode2) chain(z, ctx int) *Slice {
	switch ctx {
	case 0:
		return n.Prime
	case 1:
		return n.Region
	}
	return n.Zone[z]
}

func (n *VNode2) head(z, ctx int) *types.WorkObject {
	switch ctx {
	case 0:
		return n.HeadP
	case 1:
		return n.HeadR
	}
	return n.HeadZ[z]
}

// V2Infeasible: no proof-of-work hash makes the assembled block have the wanted order (CalcOrder's
// accumulated-entropy conditions exclude it in this state).
type V2Infeasible struct{ Order int }

func (e V2Infeasible) Error() string { return fmt.Sprintf("no pow hash gives order %d", e.Order) }

// Build assembles a block in zone z on the current heads (prime and region parts from the shared
// prime/region workers, zone part from zone z's worker), seals it with a pow hash giving the wanted
// order and returns its wire round-tripped form. It does not append it.
func (n *VNode2) Build(z int, order int, fill bool, salt int64) (*types.WorkObject, error) {
	var phs [3]*types.WorkObject
	for c := 0; c < 3; c++ {
		sl, head := n.chain(z, c), n.head(z, c)
		if err := sl.hc.SetCurrentHeader(head); err != nil {
			return nil, fmt.Errorf("ctx %d set head: %w", c, err)
		}
		w := sl.miner.worker
		if c == 2 {
			w.config.MinerPreference = 0
			w.SetLockupByte(0)
			w.quaiCoinbase, w.qiCoinbase = n.Cfg.QuaiCoinbase[z], n.Cfg.QiCoinbase[z]
		}
		ph, err := w.GeneratePendingHeader(head, fill)
		if err != nil {
			return nil, fmt.Errorf("ctx %d generate pending header: %w", c, err)
		}
		phs[c] = ph
	}
	zs := n.Zone[z]
	comb := zs.combinePendingHeader(phs[1], phs[0], common.REGION_CTX, true)
	comb = zs.combinePendingHeader(phs[2], comb, common.ZONE_CTX, true)
	comb = types.CopyWorkObject(comb)
	comb.WorkObjectHeader().SetLocation(V2ZoneLoc(z))
	comb.WorkObjectHeader().SetAuxPow(nil)
	comb.WorkObjectHeader().SetHeaderHash(comb.Header().Hash())
	return n.seal(z, comb, order, salt)
}

func (n *VNode2) seal(z int, comb *types.WorkObject, order int, salt int64) (*types.WorkObject, error) {
	if comb.Difficulty().Sign() <= 0 {
		return nil, errors.New("non-positive difficulty")
	}
	target := new(big.Int).Div(common.Big2e256, comb.Difficulty())
	for k := uint(0); k < 250; k++ {
		h := new(big.Int).Rsh(new(big.Int).Mul(target, big.NewInt(3)), k+2)
		h.Sub(h, big.NewInt(salt+1))
		if h.Sign() <= 0 {
			break
		}
		comb.WorkObjectHeader().SetMixHash(common.BigToHash(h))
		blk, err := VRoundTrip(comb, V2ZoneLoc(z))
		if err != nil {
			return nil, fmt.Errorf("wire round trip: %w", err)
		}
		_, o2, err := n.Zone[z].hc.CalcOrder(blk)
		if err != nil {
			return nil, fmt.Errorf("calc order: %w", err)
		}
		if o2 == order {
			return blk, nil
		}
		if o2 < order {
			break
		}
	}
	return nil, V2Infeasible{order}
}

// Insert feeds a sealed block of zone z through the production insert path without making it the
// head (see VNode.Insert): block blob into every chain of context >= order, Slice.Append on the
// slice of the block's order (which descends into the subordinates), pending ETXs to the dom.
func (n *VNode2) Insert(z int, blk *types.WorkObject) (int, error) {
	loc := V2ZoneLoc(z)
	_, order, err := n.Zone[z].hc.CalcOrder(blk)
	if err != nil {
		return -1, err
	}
	for c := order; c < 3; c++ {
		b, err := VRoundTrip(blk, loc)
		if err != nil {
			return order, err
		}
		if c < 2 {
			b.Body().SetTransactions(nil)
			b.Body().SetUncles(nil)
			b.Body().SetOutboundEtxs(nil)
			b.Body().SetManifest(nil)
			if c == 0 {
				b.Body().SetInterlinkHashes(rawdb.ReadInterlinkHashes(n.Prime.sliceDb, b.ParentHash(0)))
			}
			b, err = n.chain(z, c).fillSubordinateManifest(b)
			if err != nil {
				return order, fmt.Errorf("fill manifest ctx %d: %w", c, err)
			}
		}
		n.chain(z, c).WriteBlock(b)
	}
	cp, _ := VRoundTrip(blk, loc)
	top := n.chain(z, order)
	pend, err := top.Append(cp, common.Hash{}, false, nil)
	if err != nil {
		return order, err
	}
	if order > 0 {
		top.domInterface.AddPendingEtxs(types.PendingEtxs{Header: blk.ConvertToPEtxView(), OutboundEtxs: pend})
	}
	return order, nil
}

// SetHead makes an inserted block of zone z the head of every chain of context >= order: the zone
// first (state processing happens there), then the doms.
func (n *VNode2) SetHead(z int, blk *types.WorkObject, order int) error {
	for c := 2; c >= order; c-- {
		if err := n.chain(z, c).hc.SetCurrentHeader(blk); err != nil {
			return fmt.Errorf("ctx %d: %w", c, err)
		}
	}
	n.HeadZ[z] = blk
	if order <= 1 {
		n.HeadR = blk
	}
	if order == 0 {
		n.HeadP = blk
	}
	done := n.Zone[z].txPool.requestReset(nil, blk)
	select {
	case <-done:
	case <-time.After(30 * time.Second):
		panic("harness: pool reset did not complete")
	}
	return nil
}

func (n *VNode2) Append(z int, blk *types.WorkObject) VAppendResult {
	res := VAppendResult{Order: -1}
	order, err := n.Insert(z, blk)
	res.Order = order
	if err != nil {
		res.AppendErr = err
		return res
	}
	if err := n.SetHead(z, blk, order); err != nil {
		res.HeadErr = err
	}
	return res
}

// Mine = Build + Append. A refusal of the block the node's own workers assembled comes back as
// VOwnBlockRejected, an impossible order as V2Infeasible.
func (n *VNode2) Mine(z int, order int, fill bool) (*types.WorkObject, error) {
	blk, err := n.Build(z, order, fill, 0)
	if err != nil {
		return nil, err
	}
	if r := n.Append(z, blk); r.Err() != nil {
		return blk, VOwnBlockRejected{r.Err()}
	}
	return blk, nil
}

// ---- transactions, state ------------------------------------------------------------------------

func (n *VNode2) ChainID() *big.Int { return n.Zone[0].config.ChainID }

// QuaiTx signs a Quai transaction for zone z.
func (n *VNode2) QuaiTx(z int, k *VKey, nonce uint64, to *common.Address, value *big.Int, gas uint64, price *big.Int, data []byte) *types.Transaction {
	inner := &types.QuaiTx{ChainID: n.ChainID(), Nonce: nonce, GasPrice: price, Gas: gas, To: to, Value: value, Data: data}
	tx, err := types.SignTx(types.NewTx(inner), types.NewSigner(n.ChainID(), V2ZoneLoc(z)), k.Priv)
	if err != nil {
		panic("harness: sign: " + err.Error())
	}
	// as it arrives at a node of zone z: decoded from the wire form relative to that zone's location
	// (an address object remembers whether it is internal or external to the location it was built for)
	pt, err := tx.ProtoEncode()
	if err != nil {
		panic("harness: tx encode: " + err.Error())
	}
	raw, err := proto.Marshal(pt)
	if err != nil {
		panic("harness: tx marshal: " + err.Error())
	}
	pt2 := new(types.ProtoTransaction)
	if err := proto.Unmarshal(raw, pt2); err != nil {
		panic("harness: tx unmarshal: " + err.Error())
	}
	out := new(types.Transaction)
	if err := out.ProtoDecode(pt2, V2ZoneLoc(z)); err != nil {
		panic("harness: tx decode: " + err.Error())
	}
	return out
}

// AddTxs injects transactions into zone z's real pool (see VNode.AddTxs).
func (n *VNode2) AddTxs(z int, txs ...*types.Transaction) []error {
	pool := n.Zone[z].txPool
	errs := pool.AddLocals(txs)
	pool.mu.Lock()
	addrs := make([]common.InternalAddress, 0, len(pool.queue))
	for a := range pool.queue {
		addrs = append(addrs, a)
	}
	pool.mu.Unlock()
	if len(addrs) > 0 {
		done2 := make(chan struct{})
		pool.runReorg(done2, make(chan struct{}), nil, newAccountSet(pool.signer, addrs...), map[common.InternalAddress]*txSortedMap{}, nil)
	}
	deadline := time.Now().Add(20 * time.Second)
	for i, tx := range txs {
		if errs[i] != nil {
			continue
		}
		for !pool.ContainsSender(tx.Hash()) {
			if time.Now().After(deadline) {
				panic("harness: sender cache did not settle")
			}
			time.Sleep(50 * time.Microsecond)
		}
	}
	return errs
}

func (n *VNode2) stateAtHead(z int) (interface {
	GetNonce(common.InternalAddress) uint64
	GetBalance(common.InternalAddress) *big.Int
}, error) {
	zs, h := n.Zone[z], n.HeadZ[z]
	if zs.hc.IsGenesisHash(h.Hash()) {
		return zs.hc.bc.processor.StateAt(types.EmptyRootHash, types.EmptyRootHash, big.NewInt(0))
	}
	return zs.hc.bc.processor.StateAt(h.EVMRoot(), h.EtxSetRoot(), h.QuaiStateSize())
}

func (n *VNode2) VNonce(z int, a common.Address) uint64 {
	st, err := n.stateAtHead(z)
	if err != nil {
		panic("harness: state at head: " + err.Error())
	}
	ia, err := a.InternalAddress()
	if err != nil {
		return 0
	}
	return st.GetNonce(ia)
}

func (n *VNode2) VBalance(z int, a common.Address) *big.Int {
	st, err := n.stateAtHead(z)
	if err != nil {
		panic("harness: state at head: " + err.Error())
	}
	ia, err := a.InternalAddress()
	if err != nil {
		return new(big.Int)
	}
	return st.GetBalance(ia)
}

// VInboundEtxs: the inbound ETX list the dominant chain handed zone z together with a
// dom-coincident block, as stored by the zone (nil for zone-order blocks).
func (n *VNode2) VInboundEtxs(z int, blk *types.WorkObject) types.Transactions {
	return rawdb.ReadInboundEtxs(n.DBZ[z], blk.Hash())
}

func (n *VNode2) VReceipts(z int, blk *types.WorkObject) types.Receipts {
	return n.Zone[z].hc.bc.processor.GetReceiptsByHash(blk.Hash())
}

// VCurrent: hash of the current header of the chain of context ctx a block of zone z belongs to.
func (n *VNode2) VCurrent(z, ctx int) common.Hash { return n.chain(z, ctx).hc.CurrentHeader().Hash() }

// VCanonical: is blk the canonical block at its height in the chain of context ctx?
func (n *VNode2) VCanonical(z, ctx int, blk *types.WorkObject) bool {
	return rawdb.ReadCanonicalHash(n.chain(z, ctx).sliceDb, blk.NumberU64(ctx)) == blk.Hash()
}

// V2Regime: the controller-off regime (ControllerKickInBlock = never; mainnet runs in it for its
// first 262000 prime blocks). Needed because after the kick-in block prime asks for the stored
// exchange rate of the block's ZONE parent through subInterface[0] only ("This only works with first
// expansion", Slice.GetKQuaiAndUpdateBit): a prime-order block mined in zone [0,1] is then refused
// with "sub not synced to dom". Returns the function that restores the previous value.
func V2Regime() func() {
	old := params.ControllerKickInBlock
	params.ControllerKickInBlock = uint64(1) << 62
	return func() { params.ControllerKickInBlock = old }
}
