//go:build verif

package core

// C08 part "real-kernels": a bare HeaderChain whose two engine slots hold the REAL progpow and kawpow
// engines (test-mode caches, real light kernels), so that verifySeal / ComputePowHash /
// CheckIfValidWorkShare run the production digest checks and memoisation.

import (
	lru "github.com/hashicorp/golang-lru/v2"

	"github.com/dominant-strategies/go-quai/common"
	"github.com/dominant-strategies/go-quai/consensus"
	"github.com/dominant-strategies/go-quai/consensus/kawpow"
	"github.com/dominant-strategies/go-quai/consensus/progpow"
	"github.com/dominant-strategies/go-quai/params"
)

func VerifC08KernelChain() *HeaderChain {
	logger := verifC08Logger()
	cfg := params.PowConfig{PowMode: params.ModeTest}
	hc := &HeaderChain{
		engine:    []consensus.Engine{progpow.New(cfg, nil, false, logger), kawpow.New(cfg, nil, false, logger)},
		powConfig: params.PowConfig{PowMode: params.ModeNormal, WorkShareThreshold: 4},
		logger:    logger,
	}
	// the memoisation layers NewHeaderChain sets up (a chain object without them would hide what a
	// cache keyed too coarsely does)
	hc.powHashCache, _ = lru.New[common.Hash, common.Hash](c_powCacheLimit)
	hc.calcOrderCache, _ = lru.New[common.Hash, calcOrderResponse](c_calcOrderCacheLimit)
	hc.numberCache, _ = lru.New[common.Hash, uint64](numberCacheLimit)
	return hc
}
