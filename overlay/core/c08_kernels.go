//go:build verif

package core

// C08 part "real-kernels": a bare HeaderChain whose two engine slots hold the REAL progpow and kawpow
// engines (test-mode caches, real light kernels), so that verifySeal / ComputePowHash /
// CheckIfValidWorkShare run the production digest checks and memoisation.

import (
	"github.com/dominant-strategies/go-quai/consensus"
	"github.com/dominant-strategies/go-quai/consensus/kawpow"
	"github.com/dominant-strategies/go-quai/consensus/progpow"
	"github.com/dominant-strategies/go-quai/params"
)

func VerifC08KernelChain() *HeaderChain {
	logger := verifC08Logger()
	cfg := params.PowConfig{PowMode: params.ModeTest}
	return &HeaderChain{
		engine:    []consensus.Engine{progpow.New(cfg, nil, false, logger), kawpow.New(cfg, nil, false, logger)},
		powConfig: params.PowConfig{PowMode: params.ModeNormal, WorkShareThreshold: 4},
		logger:    logger,
	}
}
