//go:build verif

package core

// C08 access shim: stands up a REAL zone core.Slice in-process (Appendix A recipe) whose two
// consensus-engine slots hold an injected engine that does not run a PoW kernel but reads the
// "kernel output" from a place the harness controls (progpow slot: WorkObjectHeader.MixHash,
// kawpow slot: donor RavencoinBlockHeader.MixHash). Everything else - verifySeal, CalcOrder,
// verifyHeader, VerifyUncles, ValidateBody, work-share classification, the worker that builds
// the pending headers - is the repository's code, untouched.

import (
	"errors"
	"fmt"
	"io"
	"math/big"
	"time"

	"github.com/dominant-strategies/go-quai/common"
	"github.com/dominant-strategies/go-quai/consensus"
	"github.com/dominant-strategies/go-quai/core/rawdb"
	"github.com/dominant-strategies/go-quai/core/types"
	"github.com/dominant-strategies/go-quai/core/vm"
	"github.com/dominant-strategies/go-quai/params"
	"github.com/sirupsen/logrus"
	"google.golang.org/protobuf/proto"
)

// VerifC08Engine is the injected consensus.Engine.
type VerifC08Engine struct {
	Kaw   bool
	Calls *int64
}

func (e VerifC08Engine) Seal(header *types.WorkObject, results chan<- *types.WorkObject, stop <-chan struct{}) error {
	return nil
}

func (e VerifC08Engine) ComputePowHash(h *types.WorkObjectHeader) (common.Hash, error) {
	if e.Calls != nil {
		*e.Calls++
	}
	if e.Kaw {
		if h.AuxPow() == nil || h.AuxPow().Header() == nil {
			return common.Hash{}, errors.New("AuxPow is nil for KAWPOW")
		}
		return h.AuxPow().Header().MixHash(), nil
	}
	return h.MixHash(), nil
}

func (e VerifC08Engine) ComputePowLight(h *types.WorkObjectHeader) (common.Hash, common.Hash) {
	p, _ := e.ComputePowHash(h)
	return p, p
}
func (e VerifC08Engine) SetThreads(int) {}

var _ consensus.Engine = VerifC08Engine{}

// VerifC08Env is one real zone slice plus the chain mined on it.
type VerifC08Env struct {
	Sl      *Slice
	Loc     common.Location
	Blocks  []*types.WorkObject // Blocks[0] = genesis, Blocks[i] = block i (appended, canonical)
	Calls   int64
	logger  *logrus.Logger
	Regime  string
	Coinbas common.Address
}

func verifC08Logger() *logrus.Logger {
	l := logrus.New()
	l.SetOutput(io.Discard)
	l.SetLevel(logrus.PanicLevel)
	l.ExitFunc = func(int) { panic("logger.Fatal called") }
	return l
}

// VerifC08Roundtrip passes a work object through the wire form, as the submit path does.
func VerifC08Roundtrip(wo *types.WorkObject, loc common.Location) (*types.WorkObject, error) {
	pw, err := wo.ProtoEncode(types.BlockObject)
	if err != nil {
		return nil, err
	}
	raw, err := proto.Marshal(pw)
	if err != nil {
		return nil, err
	}
	pw2 := new(types.ProtoWorkObject)
	if err := proto.Unmarshal(raw, pw2); err != nil {
		return nil, err
	}
	blk := new(types.WorkObject)
	if err := blk.ProtoDecode(pw2, loc, types.BlockObject); err != nil {
		return nil, err
	}
	return blk, nil
}

// VerifC08NewEnv builds a fresh zone node. The caller has already set the fork heights
// (params.KawPowForkBlock ...) for the regime it wants.
func VerifC08NewEnv(regime string, nblocks int) (env *VerifC08Env, err error) {
	defer func() {
		if r := recover(); r != nil {
			err = fmt.Errorf("env construction panicked: %v", r)
		}
	}()
	logger := verifC08Logger()
	loc := common.Location{0, 0}
	db := rawdb.NewMemoryDatabase(logger)
	cc := *params.ProgpowLocalChainConfig
	cc.Location = loc
	gen := &Genesis{Config: &cc, Nonce: 0, ExtraData: []byte{}, GasLimit: 12000000, Difficulty: big.NewInt(1000)}
	_, ghash, err := SetupGenesisBlock(db, gen, 0, nil, loc, logger)
	if err != nil {
		return nil, err
	}
	cc.DefaultGenesisHash = ghash
	pow := params.PowConfig{PowMode: params.ModeNormal, DurationLimit: big.NewInt(5), GasCeil: 50000000, MinDifficulty: big.NewInt(1000), NodeLocation: loc, WorkShareThreshold: 6}
	qc := common.HexToAddress("0x0000000000000000000000000000000000000001", loc)
	mcfg := &Config{QuaiCoinbase: qc, QiCoinbase: common.HexToAddress("0x0080000000000000000000000000000000000001", loc), GasCeil: 50000000, GasPrice: big.NewInt(1), Recommit: time.Hour}
	txc := DefaultTxPoolConfig
	txc.Journal = ""
	txc.NoLocals = true
	txc.ReorgFrequency = time.Hour
	var lim uint64 = 0
	env = &VerifC08Env{Loc: loc, logger: logger, Regime: regime, Coinbas: qc}
	eng := []consensus.Engine{VerifC08Engine{Kaw: false, Calls: &env.Calls}, VerifC08Engine{Kaw: true, Calls: &env.Calls}}
	sl, err := NewSlice(db, mcfg, pow, &txc, &lim, &cc, []common.Location{loc}, 0, nil, eng, &CacheConfig{TrieCleanLimit: 16, TrieDirtyLimit: 16, SnapshotLimit: 0}, vm.Config{}, gen, logger)
	if err != nil {
		return nil, err
	}
	// worker.asyncStateLoop regenerates the pending header every second on its own goroutine (under
	// hc.headermu); a harness that keeps the node alive for longer would race with it. Ending the
	// chain-side subscription makes that loop return; nothing else of the node is touched.
	if sl.miner.worker.chainSideSub != nil {
		sl.miner.worker.chainSideSub.Unsubscribe()
	}
	env.Sl = sl
	env.Blocks = []*types.WorkObject{sl.hc.CurrentHeader()}
	for i := 0; i < nblocks; i++ {
		ph, err := env.Pending(env.Head())
		if err != nil {
			return nil, fmt.Errorf("pending %d: %v", i, err)
		}
		// progpow-style seal: a hash a little below the target, zone order
		target := new(big.Int).Div(common.Big2e256, ph.Difficulty())
		h := new(big.Int).Sub(target, big.NewInt(int64(i+1)))
		ph.WorkObjectHeader().SetMixHash(common.BigToHash(h))
		ph.WorkObjectHeader().SetAuxPow(nil)
		blk, err := env.AppendBlock(ph)
		if err != nil {
			return nil, fmt.Errorf("append %d: %v", i, err)
		}
		_ = blk
	}
	return env, nil
}

// VerifC08Replica builds a FRESH node (same genesis, same parameters) and feeds it the already
// sealed blocks of another environment through the normal write+append path.
func VerifC08Replica(src *VerifC08Env) (*VerifC08Env, error) {
	env, err := VerifC08NewEnv(src.Regime, 0)
	if err != nil {
		return nil, err
	}
	if env.Blocks[0].Hash() != src.Blocks[0].Hash() {
		return nil, fmt.Errorf("replica genesis differs")
	}
	for i, b := range src.Blocks[1:] {
		if _, err := env.AppendBlock(types.CopyWorkObject(b)); err != nil {
			return nil, fmt.Errorf("replica append %d: %v", i+1, err)
		}
	}
	return env, nil
}

func (e *VerifC08Env) Head() *types.WorkObject { return e.Blocks[len(e.Blocks)-1] }
func (e *VerifC08Env) HC() *HeaderChain        { return e.Sl.hc }

// Pending asks the real worker for the pending header on top of parent (which must be the
// current head) and performs the miner's finishing step (header hash); the seal is left to the
// caller.
func (e *VerifC08Env) Pending(parent *types.WorkObject) (*types.WorkObject, error) {
	if err := e.Sl.hc.SetCurrentHeader(parent); err != nil {
		return nil, err
	}
	ph, err := e.Sl.miner.worker.GeneratePendingHeader(parent, true)
	if err != nil {
		return nil, err
	}
	ph = types.CopyWorkObject(ph)
	ph.WorkObjectHeader().SetLocation(e.Loc)
	ph.WorkObjectHeader().SetHeaderHash(ph.Header().Hash())
	return ph, nil
}

// AppendBlock seals nothing: it round-trips, writes and appends the already sealed block.
func (e *VerifC08Env) AppendBlock(ph *types.WorkObject) (*types.WorkObject, error) {
	ph.WorkObjectHeader().SetHeaderHash(ph.Header().Hash())
	blk, err := VerifC08Roundtrip(ph, e.Loc)
	if err != nil {
		return nil, err
	}
	e.Sl.WriteBlock(blk)
	if _, err := e.Sl.Append(blk, common.Hash{}, false, nil); err != nil {
		return nil, err
	}
	if err := e.Sl.hc.SetCurrentHeader(blk); err != nil {
		return nil, err
	}
	e.Blocks = append(e.Blocks, blk)
	return blk, nil
}

func (e *VerifC08Env) PurgeCaches() {
	e.Sl.hc.calcOrderCache.Purge()
	e.Sl.hc.powHashCache.Purge()
}

func (e *VerifC08Env) VerifySeal(h *types.WorkObjectHeader) (common.Hash, error) {
	return e.Sl.hc.verifySeal(h)
}
func (e *VerifC08Env) CalcOrder(wo *types.WorkObject) (*big.Int, int, error) {
	return e.Sl.hc.CalcOrder(wo)
}
func (e *VerifC08Env) VerifyHeader(wo, parent *types.WorkObject, uncle bool) error {
	return e.Sl.hc.verifyHeader(wo, parent, uncle, time.Now().Unix())
}
func (e *VerifC08Env) VerifyHeaderPublic(wo *types.WorkObject) error {
	return e.Sl.hc.VerifyHeader(wo)
}
func (e *VerifC08Env) VerifyUncles(wo *types.WorkObject) error { return e.Sl.hc.VerifyUncles(wo) }
func (e *VerifC08Env) ValidateBody(wo *types.WorkObject) error {
	return e.Sl.validator.ValidateBody(wo)
}
func (e *VerifC08Env) SanityBlock(wo *types.WorkObject) error {
	return e.Sl.validator.SanityCheckWorkObjectBlockViewBody(wo)
}
func (e *VerifC08Env) WorkShareValidity(h *types.WorkObjectHeader) types.WorkShareValidity {
	return e.Sl.hc.CheckIfValidWorkShare(h)
}
func (e *VerifC08Env) Classify(h *types.WorkObjectHeader) types.WorkShareValidity {
	return e.Sl.hc.UncleWorkShareClassification(h)
}
func (e *VerifC08Env) AddWorkShare(h *types.WorkObjectHeader) error {
	return e.Sl.miner.worker.AddWorkShare(h)
}
func (e *VerifC08Env) WorkShareThresholdCfg() int { return e.Sl.hc.powConfig.WorkShareThreshold }
func (e *VerifC08Env) Append(wo *types.WorkObject) error {
	_, err := e.Sl.Append(wo, common.Hash{}, false, nil)
	return err
}
func (e *VerifC08Env) WriteBlock(wo *types.WorkObject) { e.Sl.WriteBlock(wo) }
func (e *VerifC08Env) ReadBlock(hash common.Hash, number uint64) *types.WorkObject {
	return rawdb.ReadWorkObject(e.Sl.sliceDb, number, hash, types.BlockObject)
}
func (e *VerifC08Env) Close() {
	defer func() { recover() }()
	e.Sl.WriteBestPh(e.Head())
	e.Sl.Stop()
}

// VerifC08BodyValidator returns a block validator for another context (region / prime): the
// ValidateBody of those contexts only reads the chain config.
func VerifC08BodyValidator(loc common.Location) func(*types.WorkObject) error {
	cc := *params.ProgpowLocalChainConfig
	cc.Location = loc
	v := NewBlockValidator(&cc, nil, nil)
	return v.ValidateBody
}
