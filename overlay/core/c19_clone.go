//go:build verif

package core

// Deep copy of an owned pool, used by the explorer to branch: the state of a node is produced by
// replaying its history on a pool built by NewTxPool; each enabled section is then executed on
// its own copy. The copy re-creates every pool-owned structure with this copy's own transaction
// objects (pointer identity between lists, hash index and price heaps is preserved inside the
// copy, nothing is shared with the source except immutable chain objects). The explorer
// cross-validates copies against real replays on a sample of transitions, and
// VerifC19PoolFieldCount guards against TxPool gaining fields this file does not know about.

import (
	"math/big"
	"reflect"
	"time"

	"github.com/dominant-strategies/go-quai/common"
	"github.com/dominant-strategies/go-quai/core/state"
	"github.com/dominant-strategies/go-quai/core/types"
	"github.com/dominant-strategies/go-quai/quaiclient"
	lru "github.com/hashicorp/golang-lru/v2"
)

// verifC19KnownPoolFields is the number of fields of TxPool that Clone handles.
const verifC19KnownPoolFields = 44

// VerifC19PoolFieldCount returns (actual, expected) field counts of TxPool.
func VerifC19PoolFieldCount() (int, int) {
	return reflect.TypeOf(TxPool{}).NumField(), verifC19KnownPoolFields
}

func verifC19CopyLRU[K comparable, V any](src *lru.Cache[K, V], size int) *lru.Cache[K, V] {
	dst, _ := lru.New[K, V](size)
	for _, k := range src.Keys() { // oldest first
		if v, ok := src.Peek(k); ok {
			dst.Add(k, v)
		}
	}
	return dst
}

func (p *VerifC19Pool) Clone() *VerifC19Pool {
	src := p.P
	w := p.W
	q := &VerifC19Pool{W: w, txs: map[string]*types.Transaction{}, loopHead: p.loopHead, keepCaches: p.keepCaches, Dead: p.Dead}
	// transaction objects: one copy per source object, flags and time stamp included
	m := map[*types.Transaction]*types.Transaction{}
	mp := func(tx *types.Transaction) *types.Transaction {
		if tx == nil {
			return nil
		}
		if c, ok := m[tx]; ok {
			return c
		}
		c := tx.VerifC19Clone(true)
		c.VerifC19SetTime(tx.Time())
		if tx.IsLocal() {
			c.SetLocal(true)
		}
		m[tx] = c
		return c
	}
	for id, tx := range p.txs {
		q.txs[id] = mp(tx)
	}
	ch := &verifC19Chain{w: w, head: p.chain.CurrentBlock(), owner: map[*state.StateDB]int{}}
	q.chain = ch
	cfg := src.config
	dst := &TxPool{
		config:             cfg,
		chainconfig:        src.chainconfig,
		chain:              ch,
		gasPrice:           new(big.Int).Set(src.gasPrice),
		signer:             src.signer,
		qiGasScalingFactor: src.qiGasScalingFactor,
		db:                 src.db,
		currentMaxGas:      src.currentMaxGas,
		pending:            make(map[common.InternalAddress]*txList),
		queue:              make(map[common.InternalAddress]*txList),
		beats:              make(map[common.InternalAddress]time.Time),
		// channels are empty between sections (drained after each one) and there is a single
		// explorer goroutine: copies share them
		sendersCh:          src.sendersCh,
		feesCh:             src.feesCh,
		invalidQiTxsCh:     src.invalidQiTxsCh,
		all:                newTxLookup(),
		chainHeadCh:        src.chainHeadCh,
		chainHeadSub:       &verifC19Sub{err: make(chan error)},
		reqResetCh:         src.reqResetCh,
		reqPromoteCh:       src.reqPromoteCh,
		queueTxEventCh:     src.queueTxEventCh,
		reorgDoneCh:        src.reorgDoneCh,
		reorgShutdownCh:    make(chan struct{}),
		localTxsCount:      src.localTxsCount,
		remoteTxsCount:     src.remoteTxsCount,
		reOrgCounter:       src.reOrgCounter,
		logger:             src.logger,
		poolSharingClients: make([]*quaiclient.Client, len(src.poolSharingClients)),
		poolSharingTxCh:    src.poolSharingTxCh,
		journal:            nil,
	}
	// state and virtual nonces
	// The pool only ever READS its state objects (GetNonce/GetBalance; reset replaces them by a
	// fresh StateAt copy), so copies of a pool share them.
	dst.currentState = src.currentState
	p.chain.mu.Lock()
	ch.owner[dst.currentState] = p.chain.owner[src.currentState]
	p.chain.mu.Unlock()
	dst.pendingNonces = &txNoncer{fallback: src.pendingNonces.fallback, nonces: verifC19CopyLRU(src.pendingNonces.nonces, c_maxNonceCache)}
	// local accounts
	dst.locals = newAccountSet(src.signer)
	for a := range src.locals.accounts {
		dst.locals.add(a)
	}
	// LRUs
	dst.senders = verifC19CopyLRU(src.senders, int(cfg.MaxSenders))
	dst.qiTxFees = verifC19CopyLRU(src.qiTxFees, int(cfg.MaxFeesCached))
	dst.broadcastSetCache = src.broadcastSetCache // only written by the worker, never by the pool
	dst.qiPool, _ = lru.New[common.Hash, *types.TxWithMinerFee](int(cfg.QiPoolSize))
	for _, k := range src.qiPool.Keys() {
		if v, ok := src.qiPool.Peek(k); ok {
			nv, err := types.NewTxWithMinerFee(mp(v.Tx()), v.MinerFee(), v.Received())
			if err != nil {
				panic("verif: clone qi: " + err.Error())
			}
			dst.qiPool.Add(k, nv)
		}
	}
	dst.broadcastSet = make(types.Transactions, 0, len(src.broadcastSet))
	for _, tx := range src.broadcastSet {
		dst.broadcastSet = append(dst.broadcastSet, mp(tx))
	}
	// per-account lists
	cpList := func(l *txList) *txList {
		n := newTxList(l.strict)
		for nonce, tx := range l.txs.items {
			n.txs.items[nonce] = mp(tx)
		}
		idx := make(nonceHeap, len(*l.txs.index))
		copy(idx, *l.txs.index)
		n.txs.index = &idx
		if l.txs.cache != nil {
			n.txs.cache = make(types.Transactions, len(l.txs.cache))
			for i, tx := range l.txs.cache {
				n.txs.cache[i] = mp(tx)
			}
		}
		n.costcap = new(big.Int).Set(l.costcap)
		n.gascap = l.gascap
		return n
	}
	for a, l := range src.pending {
		dst.pending[a] = cpList(l)
	}
	for a, l := range src.queue {
		dst.queue[a] = cpList(l)
	}
	for a, t := range src.beats {
		dst.beats[a] = t
	}
	// hash index
	dst.all.slots = src.all.slots
	for h, tx := range src.all.locals {
		dst.all.locals[h] = mp(tx)
	}
	for h, tx := range src.all.remotes {
		dst.all.remotes[h] = mp(tx)
	}
	// price index (same heap layouts)
	dst.priced = newTxPricedList(dst.all)
	dst.priced.stales = src.priced.stales
	dst.priced.urgent.baseFee = src.priced.urgent.baseFee
	dst.priced.floating.baseFee = src.priced.floating.baseFee
	if src.priced.urgent.list != nil {
		dst.priced.urgent.list = make([]*types.Transaction, len(src.priced.urgent.list))
		for i, tx := range src.priced.urgent.list {
			dst.priced.urgent.list[i] = mp(tx)
		}
	}
	if src.priced.floating.list != nil {
		dst.priced.floating.list = make([]*types.Transaction, len(src.priced.floating.list))
		for i, tx := range src.priced.floating.list {
			dst.priced.floating.list[i] = mp(tx)
		}
	}
	q.P = dst
	// scheduler mirror
	cpRun := func(r *verifC19Run) *verifC19Run {
		if r == nil {
			return nil
		}
		n := &verifC19Run{events: map[common.InternalAddress]*txSortedMap{}}
		if r.reset != nil {
			n.reset = &txpoolResetRequest{r.reset.oldHead, r.reset.newHead}
		}
		if r.dirty != nil {
			n.dirty = newAccountSet(src.signer)
			for a := range r.dirty.accounts {
				n.dirty.add(a)
			}
		}
		for a, sm := range r.events {
			nm := newTxSortedMap()
			for _, tx := range sm.items {
				nm.Put(mp(tx))
			}
			n.events[a] = nm
		}
		for _, tx := range r.queuedQi {
			n.queuedQi = append(n.queuedQi, mp(tx))
		}
		return n
	}
	q.next = *cpRun(&p.next)
	q.inflight = cpRun(p.inflight)
	return q
}
