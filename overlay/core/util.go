//go:build verif

package core

import (
	"bytes"
	"crypto/ecdsa"
	"crypto/sha256"
	"encoding/binary"
	"encoding/hex"
	"errors"
	"fmt"
	"math/big"
	"sort"
	"sync"
	"time"

	"github.com/btcsuite/btcd/btcec/v2"
	"github.com/btcsuite/btcd/btcec/v2/schnorr"
	"github.com/btcsuite/btcd/btcec/v2/schnorr/musig2"
	"github.com/dominant-strategies/go-quai/common"
	"github.com/dominant-strategies/go-quai/core/rawdb"
	"github.com/dominant-strategies/go-quai/core/state"
	"github.com/dominant-strategies/go-quai/core/types"
	"github.com/dominant-strategies/go-quai/core/vm"
	"github.com/dominant-strategies/go-quai/crypto"
	"github.com/dominant-strategies/go-quai/crypto/multiset"
	"github.com/dominant-strategies/go-quai/ethdb"
	"github.com/dominant-strategies/go-quai/trie"
	"google.golang.org/protobuf/proto"
)

// ---- deterministic keys ground into a given zone/ledger ----------------------------------------

type VKey struct {
	Priv *ecdsa.PrivateKey
	Addr common.Address
	Btc  *btcec.PrivateKey
	Pub  []byte // uncompressed 65-byte public key as used in TxIn.PubKey
}

var vKeyCache sync.Map

// VGrindKey returns the i-th deterministic key whose address lies in zone (region,zone) and in the
// Qi (qi=true) or Quai ledger.
func VGrindKey(i int, region, zone byte, qi bool) *VKey {
	ck := fmt.Sprintf("%d/%d/%d/%v", i, region, zone, qi)
	if v, ok := vKeyCache.Load(ck); ok {
		return v.(*VKey)
	}
	loc := common.Location{region, zone}
	for ctr := 0; ; ctr++ {
		seed := sha256.Sum256([]byte(fmt.Sprintf("verif-key-%s-%d", ck, ctr)))
		priv, err := crypto.ToECDSA(seed[:])
		if err != nil {
			continue
		}
		addr := crypto.PubkeyToAddress(priv.PublicKey, loc)
		b := addr.Bytes()
		if b[0] != (region<<4 | zone) {
			continue
		}
		if (b[1]&0x80 != 0) != qi {
			continue
		}
		btc, _ := btcec.PrivKeyFromBytes(seed[:])
		k := &VKey{Priv: priv, Addr: addr, Btc: btc, Pub: crypto.FromECDSAPub(&priv.PublicKey)}
		vKeyCache.Store(ck, k)
		return k
	}
}

// ---- transactions -----------------------------------------------------------------------------

func (n *VNode) ChainID() *big.Int { return n.Sl[2].config.ChainID }

func (n *VNode) Signer() types.Signer { return types.NewSigner(n.ChainID(), VZoneLoc) }

func (n *VNode) QuaiTx(k *VKey, nonce uint64, to *common.Address, value *big.Int, gas uint64, price *big.Int, data []byte) *types.Transaction {
	return n.QuaiTxAL(k, nonce, to, value, gas, price, data, nil)
}

// QuaiTxAL: like QuaiTx with an access list (contract creation requires the address of the new
// contract to be listed).
func (n *VNode) QuaiTxAL(k *VKey, nonce uint64, to *common.Address, value *big.Int, gas uint64, price *big.Int, data []byte, al types.AccessList) *types.Transaction {
	inner := &types.QuaiTx{ChainID: n.ChainID(), Nonce: nonce, GasPrice: price, Gas: gas, To: to, Value: value, Data: data, AccessList: al}
	tx, err := types.SignTx(types.NewTx(inner), n.Signer(), k.Priv)
	if err != nil {
		panic("harness: sign: " + err.Error())
	}
	return tx
}

// VQiIn / VQiOut describe a Qi transaction for QiTx.
type VQiIn struct {
	Hash  common.Hash
	Index uint16
	Key   *VKey // key whose public key is placed in the input
}
type VQiOut struct {
	Denom uint8
	Addr  common.Address
}

// QiTx builds and signs (single key: Schnorr; several inputs: the harness signs with signKeys via
// MuSig2 is out of scope here — a single-key aggregate only works when all inputs share the key).
func VQiTx(chainID *big.Int, loc common.Location, ins []VQiIn, outs []VQiOut, data []byte, signKey *VKey) *types.Transaction {
	inner := &types.QiTx{ChainID: chainID, Data: data}
	for _, in := range ins {
		inner.TxIn = append(inner.TxIn, types.TxIn{PreviousOutPoint: types.OutPoint{TxHash: in.Hash, Index: in.Index}, PubKey: in.Key.Pub})
	}
	for _, o := range outs {
		inner.TxOut = append(inner.TxOut, types.TxOut{Denomination: o.Denom, Address: o.Addr.Bytes(), Lock: big.NewInt(0)})
	}
	tx := types.NewTx(inner)
	if signKey != nil {
		digest := types.NewSigner(chainID, loc).Hash(tx)
		sig, err := schnorr.Sign(signKey.Btc, digest[:])
		if err != nil {
			panic("harness: schnorr sign: " + err.Error())
		}
		inner.Signature = sig
		tx = types.NewTx(inner)
	}
	return tx
}

// AddTxs injects transactions into the node's real pool, runs the promotion pass synchronously and
// waits until the asynchronous sender cache has caught up (so that cache-dependent behaviour of
// block processing is deterministic). Returns per-tx errors of the pool.
func (n *VNode) AddTxs(txs ...*types.Transaction) []error {
	pool := n.Sl[2].txPool
	errs := pool.AddLocals(txs)
	// promote everything that is queued: run the real reorg body synchronously with the dirty set
	// built from the queue (the production scheduler would do this on its next tick).
	pool.mu.Lock()
	addrs := make([]common.InternalAddress, 0, len(pool.queue))
	for a := range pool.queue {
		addrs = append(addrs, a)
	}
	pool.mu.Unlock()
	if len(addrs) > 0 {
		done2 := make(chan struct{})
		pool.runReorg(done2, make(chan struct{}), nil, newAccountSet(pool.signer, addrs...), map[common.InternalAddress]*txSortedMap{}, nil)
	}
	deadline := time.Now().Add(20 * time.Second)
	for i, tx := range txs {
		if errs[i] != nil {
			continue
		}
		for !pool.ContainsSender(tx.Hash()) {
			if time.Now().After(deadline) {
				panic("harness: sender cache did not settle")
			}
			time.Sleep(50 * time.Microsecond)
		}
	}
	return errs
}

// ---- database snapshots -----------------------------------------------------------------------

type VSnap map[string]string

func VSnapshot(db ethdb.Database) VSnap {
	s := VSnap{}
	it := db.NewIterator(nil, nil)
	defer it.Release()
	for it.Next() {
		s[string(it.Key())] = string(it.Value())
	}
	return s
}

// VDiff lists keys whose value differs (added, removed, changed) between two snapshots.
func VDiff(a, b VSnap) []string {
	var out []string
	for k, v := range b {
		if av, ok := a[k]; !ok {
			out = append(out, "+"+VKeyName(k))
		} else if av != v {
			out = append(out, "~"+VKeyName(k))
		}
	}
	for k := range a {
		if _, ok := b[k]; !ok {
			out = append(out, "-"+VKeyName(k))
		}
	}
	sort.Strings(out)
	return out
}

// VKeyName renders a DB key as <ascii prefix>:<hex rest> for reports.
func VKeyName(k string) string {
	i := 0
	for i < len(k) && i < 8 && ((k[i] >= 'a' && k[i] <= 'z') || (k[i] >= 'A' && k[i] <= 'Z') || k[i] == '-') {
		i++
	}
	return k[:i] + ":" + hex.EncodeToString([]byte(k[i:]))
}

// VRestore writes a snapshot into a fresh memory database.
func VRestore(s VSnap, n *VNode) ethdb.Database {
	db := rawdb.NewMemoryDatabase(n.Logger)
	for k, v := range s {
		db.Put([]byte(k), []byte(v))
	}
	return db
}

// ---- ledger scans and the commitment oracle -----------------------------------------------------

type VUtxo struct {
	Hash  common.Hash
	Index uint16
	Entry *types.UtxoEntry
}

func (u VUtxo) String() string {
	return fmt.Sprintf("%x:%d d=%d a=%x l=%v", u.Hash[:6], u.Index, u.Entry.Denomination, u.Entry.Address[:4], u.Entry.Lock)
}

// VScanUtxos returns every record under the UTXO prefix, sorted by key.
func VScanUtxos(db ethdb.Database) ([]VUtxo, error) {
	var out []VUtxo
	it := db.NewIterator(rawdb.UtxoPrefix, nil)
	defer it.Release()
	for it.Next() {
		k := it.Key()
		if len(k) != rawdb.UtxoKeyLength {
			continue
		}
		h, idx, err := rawdb.ReverseUtxoKey(k)
		if err != nil {
			return nil, err
		}
		p := new(types.ProtoTxOut)
		if err := proto.Unmarshal(it.Value(), p); err != nil {
			return nil, fmt.Errorf("utxo %x: %w", k, err)
		}
		e := new(types.UtxoEntry)
		if err := e.ProtoDecode(p); err != nil {
			return nil, fmt.Errorf("utxo %x: %w", k, err)
		}
		out = append(out, VUtxo{h, idx, e})
	}
	return out, nil
}

type VLockup struct {
	Key      []byte
	Owner    common.Address
	Miner    common.Address
	LockByte byte
	Epoch    uint32
	Balance  *big.Int
	Unlock   uint32
	Elements uint16
	Delegate common.Address
}

func (l VLockup) String() string {
	return fmt.Sprintf("owner=%x miner=%x byte=%d epoch=%d bal=%v unlock=%d n=%d", l.Owner.Bytes()[:4], l.Miner.Bytes()[:4], l.LockByte, l.Epoch, l.Balance, l.Unlock, l.Elements)
}

func VScanLockups(db ethdb.Database, loc common.Location) ([]VLockup, error) {
	var out []VLockup
	it := db.NewIterator(rawdb.CoinbaseLockupPrefix, nil)
	defer it.Release()
	for it.Next() {
		k := it.Key()
		if len(k) != rawdb.CoinbaseLockupKeyLength {
			continue
		}
		owner, miner, lb, epoch, err := rawdb.ReverseCoinbaseLockupKey(k, loc)
		if err != nil {
			return nil, err
		}
		d := it.Value()
		if len(d) != 38 && len(d) != 58 {
			return nil, fmt.Errorf("lockup %x: bad value length %d", k, len(d))
		}
		l := VLockup{Key: common.CopyBytes(k), Owner: owner, Miner: miner, LockByte: lb, Epoch: epoch,
			Balance: new(big.Int).SetBytes(d[:32]), Unlock: binary.BigEndian.Uint32(d[32:36]), Elements: binary.BigEndian.Uint16(d[36:38]), Delegate: common.Zero}
		if len(d) == 58 {
			l.Delegate = common.BytesToAddress(d[38:], loc)
		}
		out = append(out, l)
	}
	return out, nil
}

// VLedgerKey is a canonical rendering of the whole flat ledger (UTXOs + lockups) of a DB.
func VLedgerKey(db ethdb.Database) string {
	var sb bytes.Buffer
	for _, pre := range [][]byte{rawdb.UtxoPrefix, rawdb.CoinbaseLockupPrefix} {
		it := db.NewIterator(pre, nil)
		for it.Next() {
			k := it.Key()
			if (bytes.Equal(pre, rawdb.UtxoPrefix) && len(k) != rawdb.UtxoKeyLength) || (bytes.Equal(pre, rawdb.CoinbaseLockupPrefix) && len(k) != rawdb.CoinbaseLockupKeyLength) {
				continue
			}
			fmt.Fprintf(&sb, "%x=%x;", k, it.Value())
		}
		it.Release()
	}
	return sb.String()
}

// VCheckCommitments is the C06(c) oracle for an accepted zone block: the header's UTXO root must be
// the multiset hash of precisely the UTXO and lockup records in the DB, the stored set size their
// number, and the state must open at the header's EVM / ETX-set roots.
func (n *VNode) VCheckCommitments(blk *types.WorkObject) error {
	z := n.Sl[2]
	db := n.DB[2]
	if z.hc.IsGenesisHash(blk.Hash()) {
		return nil
	}
	utxos, err := VScanUtxos(db)
	if err != nil {
		return err
	}
	lockups, err := VScanLockups(db, VZoneLoc)
	if err != nil {
		return err
	}
	ms := multiset.New()
	for _, u := range utxos {
		ms.Add(types.UTXOHash(u.Hash, u.Index, u.Entry).Bytes())
	}
	for _, l := range lockups {
		ms.Add(types.CoinbaseLockupHash(l.Owner, l.Miner, l.Delegate, l.LockByte, l.Epoch, l.Balance, l.Unlock, l.Elements).Bytes())
	}
	if got, want := ms.Hash(), blk.UTXORoot(); got != want {
		return fmt.Errorf("utxo-root: header %x != multiset of %d utxos + %d lockups in DB %x", want[:8], len(utxos), len(lockups), got[:8])
	}
	stored := rawdb.ReadMultiSet(db, blk.Hash())
	if stored == nil {
		return errors.New("stored-multiset: missing for head")
	}
	if stored.Hash() != blk.UTXORoot() {
		return fmt.Errorf("stored-multiset: %x != header %x", stored.Hash().Bytes()[:8], blk.UTXORoot().Bytes()[:8])
	}
	if sz := rawdb.ReadUTXOSetSize(db, blk.Hash()); sz != uint64(len(utxos)+len(lockups)) {
		return fmt.Errorf("set-size: stored %d != %d utxos + %d lockups in DB", sz, len(utxos), len(lockups))
	}
	st, err := z.hc.bc.processor.StateAt(blk.EVMRoot(), blk.EtxSetRoot(), blk.QuaiStateSize())
	if err != nil {
		return fmt.Errorf("state-open: %v", err)
	}
	if r := st.IntermediateRoot(true); r != blk.EVMRoot() {
		return fmt.Errorf("evm-root: reopened %x != header %x", r[:8], blk.EVMRoot().Bytes()[:8])
	}
	if r := st.ETXRoot(); r != blk.EtxSetRoot() {
		return fmt.Errorf("etx-root: reopened %x != header %x", r[:8], blk.EtxSetRoot().Bytes()[:8])
	}
	return nil
}

// VCanon returns the canonical projection used by differential oracles: flat ledger, canonical
// number->hash map, head pointers, stored multiset/size at head and (optionally) address index.
func (n *VNode) VCanon() map[string]string {
	db := n.DB[2]
	z := n.Sl[2]
	out := map[string]string{}
	out["ledger"] = VLedgerKey(db)
	head := z.hc.CurrentHeader()
	out["head"] = head.Hash().Hex()
	out["headBlockHash"] = rawdb.ReadHeadBlockHash(db).Hex()
	var sb bytes.Buffer
	for i := uint64(0); i <= head.NumberU64(2)+4; i++ {
		fmt.Fprintf(&sb, "%d=%x;", i, rawdb.ReadCanonicalHash(db, i).Bytes()[:6])
	}
	out["canonical"] = sb.String()
	if ms := rawdb.ReadMultiSet(db, head.Hash()); ms != nil {
		out["multiset"] = ms.Hash().Hex()
	}
	out["setsize"] = fmt.Sprint(rawdb.ReadUTXOSetSize(db, head.Hash()))
	if n.Cfg.IndexUtxos {
		// address -> set of outpoints (order inside the stored list is not part of the meaning)
		var lines []string
		it := db.NewIterator(rawdb.AddressUtxosWithoutHeightPrefix, nil)
		for it.Next() {
			k := it.Key()
			if len(k) != len(rawdb.AddressUtxosWithoutHeightPrefix)+20 {
				continue
			}
			pl := new(types.ProtoAddressOutPoints)
			if err := proto.Unmarshal(it.Value(), pl); err != nil {
				lines = append(lines, fmt.Sprintf("%x=UNDECODABLE", k))
				continue
			}
			var ops []string
			for _, o := range pl.OutPoints {
				ops = append(ops, fmt.Sprintf("%x:%d/d%d/l%x", o.GetHash().GetValue(), o.GetIndex(), o.GetDenomination(), o.GetLock()))
			}
			if len(ops) == 0 {
				continue
			}
			sort.Strings(ops)
			lines = append(lines, fmt.Sprintf("%x=%v", k[len(rawdb.AddressUtxosWithoutHeightPrefix):], ops))
		}
		it.Release()
		sort.Strings(lines)
		out["addrindex"] = fmt.Sprint(lines)
	}
	return out
}

// ---- state access at the current head -----------------------------------------------------------

func (n *VNode) VStateAt(blk *types.WorkObject) (*state.StateDB, error) {
	z := n.Sl[2]
	if z.hc.IsGenesisHash(blk.Hash()) {
		return z.hc.bc.processor.StateAt(types.EmptyRootHash, types.EmptyRootHash, big.NewInt(0))
	}
	return z.hc.bc.processor.StateAt(blk.EVMRoot(), blk.EtxSetRoot(), blk.QuaiStateSize())
}

func (n *VNode) VNonce(a common.Address) uint64 {
	st, err := n.VStateAt(n.Heads[2])
	if err != nil {
		panic("harness: state at head: " + err.Error())
	}
	ia, err := a.InternalAddress()
	if err != nil {
		return 0
	}
	return st.GetNonce(ia)
}

func (n *VNode) VBalance(a common.Address) *big.Int {
	st, err := n.VStateAt(n.Heads[2])
	if err != nil {
		panic("harness: state at head: " + err.Error())
	}
	ia, err := a.InternalAddress()
	if err != nil {
		return new(big.Int)
	}
	return st.GetBalance(ia)
}

func (n *VNode) VReceipts(blk *types.WorkObject) types.Receipts {
	return n.Sl[2].hc.bc.processor.GetReceiptsByHash(blk.Hash())
}

// ---- Process() as a pure function of (parent state, block) -------------------------------------

// VProcessFingerprint runs the real StateProcessor.Process on blk with a throw-away batch (the DB
// must be at blk's parent state) and renders every output the property names.
func (n *VNode) VProcessFingerprint(blk *types.WorkObject) (string, error) {
	z := n.Sl[2]
	batch := n.DB[2].NewBatch()
	receipts, etxs, logs, statedb, usedGas, usedState, utxoSetSize, multiSet, unlocks, err := z.hc.bc.processor.Process(blk, batch)
	batch.Reset()
	if err != nil {
		return "", err
	}
	rs := types.DeriveSha(receipts, trie.NewStackTrie(nil))
	es := types.DeriveSha(types.Transactions(etxs), trie.NewStackTrie(nil))
	var st bytes.Buffer
	for _, r := range receipts {
		fmt.Fprintf(&st, "%d/%d/%d;", r.Status, r.GasUsed, len(r.OutboundEtxs))
	}
	return fmt.Sprintf("receiptRoot=%x etxRoot=%x gas=%d state=%d setSize=%d muhash=%x evm=%x etxset=%x trieSize=%v logs=%d unlocks=%d receipts=%s",
		rs[:6], es[:6], usedGas, usedState, utxoSetSize, multiSet.Hash().Bytes()[:6], statedb.IntermediateRoot(true).Bytes()[:6], statedb.ETXRoot().Bytes()[:6], statedb.GetQuaiTrieSize(), len(logs), len(unlocks), st.String()), nil
}

// VSpentAndTrimmed lists outpoints that an accepted block recorded both as spent and as trimmed.
func (n *VNode) VSpentAndTrimmed(blk *types.WorkObject) []string {
	db := n.DB[2]
	spent, _ := rawdb.ReadSpentUTXOs(db, blk.Hash())
	trimmed, _ := rawdb.ReadTrimmedUTXOs(db, blk.Hash())
	set := map[types.OutPoint]bool{}
	for _, s := range spent {
		set[s.OutPoint] = true
	}
	var out []string
	for _, t := range trimmed {
		if set[t.OutPoint] {
			out = append(out, fmt.Sprintf("%x:%d", t.TxHash[:6], t.Index))
		}
	}
	return out
}

// VQiTxMulti builds a Qi transaction whose inputs are owned by different keys and signs it with the
// MuSig2 aggregate of signKeys (in input order, unsorted — as ProcessQiTx aggregates the input keys).
func VQiTxMulti(chainID *big.Int, loc common.Location, ins []VQiIn, outs []VQiOut, data []byte, signKeys []*VKey) *types.Transaction {
	unsigned := VQiTx(chainID, loc, ins, outs, data, nil)
	if len(signKeys) == 1 {
		return VQiTx(chainID, loc, ins, outs, data, signKeys[0])
	}
	digest := types.NewSigner(chainID, loc).Hash(unsigned)
	var pubs []*btcec.PublicKey
	for _, k := range signKeys {
		pubs = append(pubs, k.Btc.PubKey())
	}
	var sessions []*musig2.Session
	for _, k := range signKeys {
		ctx, err := musig2.NewContext(k.Btc, false, musig2.WithKnownSigners(pubs))
		if err != nil {
			panic("harness: musig2 context: " + err.Error())
		}
		s, err := ctx.NewSession()
		if err != nil {
			panic("harness: musig2 session: " + err.Error())
		}
		sessions = append(sessions, s)
	}
	for i, s := range sessions {
		for j, o := range sessions {
			if i != j {
				if _, err := s.RegisterPubNonce(o.PublicNonce()); err != nil {
					panic("harness: musig2 nonce: " + err.Error())
				}
			}
		}
	}
	var parts []*musig2.PartialSignature
	for _, s := range sessions {
		p, err := s.Sign(digest)
		if err != nil {
			panic("harness: musig2 sign: " + err.Error())
		}
		parts = append(parts, p)
	}
	for j := 1; j < len(parts); j++ {
		if _, err := sessions[0].CombineSig(parts[j]); err != nil {
			panic("harness: musig2 combine: " + err.Error())
		}
	}
	sig := sessions[0].FinalSig()
	inner := &types.QiTx{ChainID: chainID, Data: data, Signature: sig}
	for _, in := range ins {
		inner.TxIn = append(inner.TxIn, types.TxIn{PreviousOutPoint: types.OutPoint{TxHash: in.Hash, Index: in.Index}, PubKey: in.Key.Pub})
	}
	for _, o := range outs {
		inner.TxOut = append(inner.TxOut, types.TxOut{Denomination: o.Denom, Address: o.Addr.Bytes(), Lock: big.NewInt(0)})
	}
	return types.NewTx(inner)
}

// VQiEnv bundles what ProcessQiTx needs besides the transaction.
type VQiEnv struct {
	Chain  *HeaderChain
	Header *types.WorkObject
	Signer types.Signer
	Loc    common.Location
	Scale  float64
}

// VProcessQi calls the real ProcessQiTx.
func VProcessQi(env *VQiEnv, tx *types.Transaction, checkSig, first bool, batch ethdb.Batch, db ethdb.Reader, gp *types.GasPool, usedGas *uint64, etxR, etxP *uint64, ucd *UtxosCreatedDeleted, added, removed *big.Int, index bool) (*big.Int, []*types.ExternalTx, error) {
	fee, etxs, _, err, _ := ProcessQiTx(tx, env.Chain, checkSig, first, env.Header, batch, db, gp, usedGas, env.Signer, env.Loc, *env.Chain.Config().ChainID, env.Scale, etxR, etxP, ucd, added, removed, index)
	return fee, etxs, err
}

// VPubToAddr: 20-byte address of an uncompressed public key (as ProcessQiTx derives it).
func VPubToAddr(pub []byte) []byte {
	if len(pub) < 2 {
		return nil
	}
	return crypto.PubkeyBytesToAddress(pub, VZoneLoc).Bytes()
}

// VQiRetag returns the same Qi transaction (inputs, outputs, data, signature) under another chain id.
func VQiRetag(tx *types.Transaction, chainID *big.Int) *types.Transaction {
	inner := &types.QiTx{ChainID: chainID, Data: tx.Data(), Signature: tx.GetSchnorrSignature()}
	inner.TxIn = append(inner.TxIn, tx.TxIn()...)
	inner.TxOut = append(inner.TxOut, tx.TxOut()...)
	return types.NewTx(inner)
}

// VInboundEtxs: the inbound ETX list the dominant chain handed down with a dom-coincident block, as
// stored by the zone (empty for zone-order blocks).
func (n *VNode) VInboundEtxs(blk *types.WorkObject) types.Transactions {
	return rawdb.ReadInboundEtxs(n.DB[2], blk.Hash())
}

// VPrimeTerminus returns the prime terminus header the zone chain resolves for a block.
func (n *VNode) VPrimeTerminus(blk *types.WorkObject) *types.WorkObject {
	return n.Sl[2].hc.GetHeaderByHash(blk.PrimeTerminusHash())
}

// VParentStateSize: Quai state size of the parent of blk (used for the account-creation fee).
func (n *VNode) VParentStateSize(blk *types.WorkObject) *big.Int {
	p := n.Sl[2].hc.GetHeaderByHash(blk.ParentHash(2))
	if p == nil {
		return new(big.Int)
	}
	return p.QuaiStateSize()
}

// VPrimeRate: a prime header together with the exchange rate recorded in it.
type VPrimeRate struct {
	Hdr  *types.WorkObject
	Rate *big.Int
}

// VPrimeRatesAround returns, for a zone block that executes inbound ETXs, the prime blocks whose
// recorded exchange rates may have been applied to them: the last three canonical prime blocks up to
// the block's prime terminus and its successor (the rate computed while appending prime block P is
// the one written into P's child).
func (n *VNode) VPrimeRatesAround(blk *types.WorkObject) []VPrimeRate {
	var out []VPrimeRate
	p := n.Sl[0]
	if p == nil {
		return nil
	}
	head := p.hc.CurrentHeader().NumberU64(0)
	pt := n.Sl[2].hc.GetHeaderByHash(blk.PrimeTerminusHash())
	if pt == nil {
		return nil
	}
	ptn := pt.NumberU64(0)
	lo := uint64(0)
	if ptn > 3 {
		lo = ptn - 3
	}
	for i := lo; i <= ptn+1 && i <= head; i++ {
		h := p.hc.GetHeaderByNumber(i)
		if h != nil && h.ExchangeRate() != nil {
			out = append(out, VPrimeRate{h, h.ExchangeRate()})
		}
	}
	return out
}

// VProcessFingerprintWithDeletes: like VProcessFingerprint but also renders the sorted SET of keys
// the run deleted through the batch (trimming deletes expired outputs there).
func (n *VNode) VProcessFingerprintWithDeletes(blk *types.WorkObject) (string, error) {
	z := n.Sl[2]
	var dels []string
	hb := ethdb.HookedBatch{Batch: n.DB[2].NewBatch(), OnDelete: func(k []byte) { dels = append(dels, fmt.Sprintf("del:%x", k[:10])) }}
	receipts, etxs, _, statedb, usedGas, usedState, utxoSetSize, multiSet, _, err := z.hc.bc.processor.Process(blk, hb)
	hb.Reset()
	if err != nil {
		return "", err
	}
	sort.Strings(dels)
	rs := types.DeriveSha(receipts, trie.NewStackTrie(nil))
	es := types.DeriveSha(types.Transactions(etxs), trie.NewStackTrie(nil))
	return fmt.Sprintf("receiptRoot=%x etxRoot=%x gas=%d state=%d setSize=%d muhash=%x evm=%x %v", rs[:6], es[:6], usedGas, usedState, utxoSetSize, multiSet.Hash().Bytes()[:8], statedb.IntermediateRoot(true).Bytes()[:6], dels), nil
}

// VLockupPrecompile: address of the lockup contract of zone 0-0.
func VLockupPrecompile() common.Address {
	return vm.LockupContractAddresses[[2]byte{VZoneLoc[0], VZoneLoc[1]}]
}

func (n *VNode) VCode(a common.Address) []byte {
	st, err := n.VStateAt(n.Heads[2])
	if err != nil {
		return nil
	}
	ia, err := a.InternalAddress()
	if err != nil {
		return nil
	}
	return st.GetCode(ia)
}

// VProcessOutputs runs the real StateProcessor.Process on blk (DB at blk's parent state, throw-away
// batch) and returns the receipts and the emitted outbound list.
func (n *VNode) VProcessOutputs(blk *types.WorkObject) (types.Receipts, []*types.Transaction, error) {
	batch := n.DB[2].NewBatch()
	receipts, etxs, _, _, _, _, _, _, _, err := n.Sl[2].hc.bc.processor.Process(blk, batch)
	batch.Reset()
	return receipts, etxs, err
}

// VHasSnapshots reports whether the zone's state processor runs with a state snapshot tree.
func (n *VNode) VHasSnapshots() bool { return n.Sl[2].hc.bc.processor.snaps != nil }

// VWalkState visits every node of the state committed by blk - the account trie, every account's
// storage trie and code - through the state's node iterator, from what the databases hold: "the
// head's state is fully present". Returns the number of nodes visited.
func (n *VNode) VWalkState(blk *types.WorkObject) (int, error) {
	z := n.Sl[2]
	st, err := z.hc.bc.processor.StateAt(blk.EVMRoot(), blk.EtxSetRoot(), blk.QuaiStateSize())
	if err != nil {
		return 0, fmt.Errorf("open state: %w", err)
	}
	it := state.NewNodeIterator(st)
	cnt := 0
	for it.Next() {
		cnt++
	}
	if it.Error != nil {
		return cnt, it.Error
	}
	return cnt, nil
}
