//go:build verif

package core

// C19 access shim: a real TxPool (built by NewTxPool) over a mock chain with three heads, owned
// single-threadedly by the explorer so that the pool's REAL critical sections (addTxs, runReorg,
// the eviction branch of loop(), SetGasPrice, removeTx, Qi add/remove) can be invoked one at a
// time in any order, plus a plain-data snapshot of everything the invariants need.
//
// Nothing here re-implements pool logic. The only mirrored code is the request bookkeeping of
// loop()/scheduleReorgLoop (remember oldHead of the first un-served reset request, overwrite
// newHead, merge dirty account sets, collect queued tx events), which lives in local variables
// of those goroutines and therefore cannot be reached from outside.

import (
	"crypto/ecdsa"
	"errors"
	"fmt"
	"io"
	"math/big"
	"os"
	"regexp"
	"runtime"
	"sort"
	"strings"
	"sync"
	"sync/atomic"
	"time"

	"github.com/btcsuite/btcd/btcec/v2"
	"github.com/btcsuite/btcd/btcec/v2/schnorr"
	"github.com/dominant-strategies/go-quai/common"
	"github.com/dominant-strategies/go-quai/consensus"
	"github.com/dominant-strategies/go-quai/core/rawdb"
	"github.com/dominant-strategies/go-quai/core/state"
	"github.com/dominant-strategies/go-quai/core/types"
	"github.com/dominant-strategies/go-quai/crypto"
	"github.com/dominant-strategies/go-quai/ethdb"
	"github.com/dominant-strategies/go-quai/event"
	"github.com/dominant-strategies/go-quai/log"
	"github.com/dominant-strategies/go-quai/params"
	"github.com/sirupsen/logrus"
)

const (
	verifC19Gas      = 21000
	verifC19GasLimit = 5000000
)

// VerifC19Prices: p, 1.04p (below the 5% bump), 1.10p.
var VerifC19Prices = []int64{100, 104, 110}

// VerifC19Event is one step of a history (JSON-able => replay artefact).
//
//	addR/addL tx   AddRemotes / AddLocal of universe transaction tx
//	head a         the chain head moves to Heads[a]; a reset request is recorded as loop() does
//	reorg          scheduleReorgLoop launches runReorg with the accumulated requests and it runs
//	launch / run   the same in two steps (other sections may interleave between them)
//	evict a        account a's heartbeat and pending time stamps are old; the eviction branch of loop() runs
//	price a        SetGasPrice(VerifC19GasPrices[a])
//	rm tx          removeTx(hash(tx), true) under the pool lock
//	qiadd / qibad  AddRemotes of the valid / the unfunded Qi transaction
//	qirm           RemoveQiTxs of the valid Qi transaction
type VerifC19Event struct {
	K  string `json:"k"`
	Tx string `json:"tx,omitempty"`
	A  int    `json:"a,omitempty"`
}

func (e VerifC19Event) String() string {
	switch e.K {
	case "addR", "addL", "rm":
		return e.K + "(" + e.Tx + ")"
	case "head", "evict", "price":
		return fmt.Sprintf("%s(%d)", e.K, e.A)
	}
	return e.K
}

var VerifC19GasPrices = []int64{1, 104}

// ---------------------------------------------------------------------------------------------
// world: immutable per process

type verifC19Hook struct {
	mu     sync.Mutex
	msgs   map[string]int
	panics []string
}

func (h *verifC19Hook) Levels() []logrus.Level { return []logrus.Level{logrus.ErrorLevel} }
func (h *verifC19Hook) Fire(e *logrus.Entry) error {
	h.mu.Lock()
	defer h.mu.Unlock()
	if e.Message == "Go-Quai Panicked" {
		h.panics = append(h.panics, fmt.Sprintf("panic: %v\n%v", e.Data["error"], e.Data["stacktrace"]))
		return nil
	}
	h.msgs[e.Message]++
	return nil
}

// take returns and clears what was logged at Error level since the last call.
func (h *verifC19Hook) take() (msgs []string, panics []string) {
	h.mu.Lock()
	defer h.mu.Unlock()
	for m := range h.msgs {
		msgs = append(msgs, m)
	}
	sort.Strings(msgs)
	panics = h.panics
	h.msgs = map[string]int{}
	h.panics = nil
	return
}

type VerifC19World struct {
	Cfg       *params.ChainConfig
	Signer    types.Signer
	Logger    *log.Logger
	hook      *verifC19Hook
	Keys      [2]*ecdsa.PrivateKey
	Addrs     [2]common.InternalAddress
	Heads     []*types.WorkObject
	HeadNames []string
	HeadTxs   [][]string
	blocks    map[common.Hash]*types.WorkObject
	stMu      sync.Mutex
	states    map[common.Hash]*state.StateDB
	rootIdx   map[common.Hash]int
	db        ethdb.Database
	protos    map[string]*types.Transaction
	IDs       []string // quai universe, simplest first
	idOf      map[common.Hash]string
	QiHash    common.Hash
	PoolCfg   TxPoolConfig
}

// verifC19KeyHint remembers where the deterministic key search succeeds (pure speed-up: the
// candidate is re-checked, and the search falls back to 0 if the hint is stale).
var verifC19KeyHint = map[string]int{"acct-A": 415, "acct-B": 659, "qi-in": 34, "qi-out": 2312}

func verifC19Key(role string, wantQi bool, loc common.Location) (*ecdsa.PrivateKey, common.Address) {
	try := func(i int) (*ecdsa.PrivateKey, common.Address, bool) {
		d := crypto.Keccak256([]byte(fmt.Sprintf("verif-c19-%s-%d", role, i)))
		k, err := crypto.ToECDSA(d)
		if err != nil {
			return nil, common.Address{}, false
		}
		a := crypto.PubkeyToAddress(k.PublicKey, loc)
		b := a.Bytes()
		if b[0] != 0x00 || wantQi != (b[1] > 127) {
			return nil, common.Address{}, false
		}
		return k, a, true
	}
	if h, ok := verifC19KeyHint[role]; ok {
		if k, a, ok := try(h); ok {
			return k, a
		}
	}
	for i := 0; ; i++ {
		if k, a, ok := try(i); ok {
			if os.Getenv("C19_KEYHINT") != "" {
				fmt.Fprintf(os.Stderr, "keyhint %q: %d\n", role, i)
			}
			return k, a
		}
	}
}

func verifC19ID(acct int, nonce uint64, pi int) string {
	return fmt.Sprintf("%c%d%c", 'A'+acct, nonce, 'a'+pi)
}

// VerifC19ParseID splits a universe id ("B1c") into account, nonce, price.
func VerifC19ParseID(id string) (acct int, nonce uint64, price int64, ok bool) {
	if len(id) != 3 || id[0] < 'A' || id[0] > 'B' || id[1] < '0' || id[1] > '9' || id[2] < 'a' || id[2] > 'c' {
		return 0, 0, 0, false
	}
	return int(id[0] - 'A'), uint64(id[1] - '0'), VerifC19Prices[id[2]-'a'], true
}

func VerifC19NewWorld(cfg TxPoolConfig) (*VerifC19World, error) {
	lg := logrus.New()
	lg.SetOutput(io.Discard)
	lg.SetLevel(logrus.ErrorLevel)
	lg.ExitFunc = func(int) { panic("logger.Fatal called") }
	hook := &verifC19Hook{msgs: map[string]int{}}
	lg.AddHook(hook)

	loc := common.Location{0, 0}
	cc := *params.TestChainConfig
	cc.Location = loc
	w := &VerifC19World{Cfg: &cc, Logger: lg, hook: hook, blocks: map[common.Hash]*types.WorkObject{},
		states: map[common.Hash]*state.StateDB{}, rootIdx: map[common.Hash]int{}, protos: map[string]*types.Transaction{},
		idOf: map[common.Hash]string{}, PoolCfg: cfg}
	w.Signer = types.LatestSigner(w.Cfg)
	w.db = rawdb.NewMemoryDatabase(lg)

	var addrs [2]common.Address
	for i, role := range []string{"acct-A", "acct-B"} {
		k, a := verifC19Key(role, false, loc)
		ia, err := a.InternalAndQuaiAddress()
		if err != nil {
			return nil, err
		}
		w.Keys[i], w.Addrs[i], addrs[i] = k, ia, a
	}
	// universe: 2 accounts x nonces 0..2 x 3 prices, really signed
	for nonce := uint64(0); nonce < 3; nonce++ {
		for pi := range VerifC19Prices {
			for acct := 0; acct < 2; acct++ {
				to := addrs[1-acct]
				inner := &types.QuaiTx{ChainID: new(big.Int).Set(cc.ChainID), Nonce: nonce, GasPrice: big.NewInt(VerifC19Prices[pi]),
					Gas: verifC19Gas, To: &to, Value: big.NewInt(1), Data: nil}
				tx, err := types.SignTx(types.NewTx(inner), w.Signer, w.Keys[acct])
				if err != nil {
					return nil, err
				}
				// the pool's own derivation must agree with the key (real ecrecover, cold object)
				from, err := types.Sender(w.Signer, tx.VerifC19Clone(false))
				if err != nil {
					return nil, fmt.Errorf("sender of %s: %v", verifC19ID(acct, nonce, pi), err)
				}
				if fi, err := from.InternalAndQuaiAddress(); err != nil || fi != w.Addrs[acct] {
					return nil, fmt.Errorf("sender mismatch for %s", verifC19ID(acct, nonce, pi))
				}
				tx.Hash()
				tx.Size()
				types.Sender(w.Signer, tx)
				id := verifC19ID(acct, nonce, pi)
				w.protos[id] = tx
				w.IDs = append(w.IDs, id)
				w.idOf[tx.Hash()] = id
			}
		}
	}

	// Qi: one funded output, one transaction spending it (Schnorr signed), one spending nothing
	qk, qaIn := verifC19Key("qi-in", true, loc)
	_, qaOut := verifC19Key("qi-out", true, loc)
	prev := common.HexToHash("0x0000000000000000000000000000000000000000000000000000000000c19001")
	if err := rawdb.CreateUTXO(w.db, prev, 0, &types.UtxoEntry{Denomination: 12, Address: qaIn.Bytes()}); err != nil {
		return nil, err
	}
	bk, _ := btcec.PrivKeyFromBytes(crypto.FromECDSA(qk))
	mkQi := func(prevHash common.Hash) (*types.Transaction, error) {
		in := types.TxIn{PreviousOutPoint: *types.NewOutPoint(&prevHash, 0), PubKey: crypto.FromECDSAPub(&qk.PublicKey)}
		out := types.TxOut{Denomination: 10, Address: qaOut.Bytes()}
		q := &types.QiTx{ChainID: new(big.Int).Set(cc.ChainID), TxIn: types.TxIns{in}, TxOut: types.TxOuts{out}}
		digest := w.Signer.Hash(types.NewTx(q))
		sig, err := schnorr.Sign(bk, digest[:])
		if err != nil {
			return nil, err
		}
		q.Signature = sig
		return types.NewTx(q), nil
	}
	qi, err := mkQi(prev)
	if err != nil {
		return nil, err
	}
	qibad, err := mkQi(common.HexToHash("0x0000000000000000000000000000000000000000000000000000000000c19002"))
	if err != nil {
		return nil, err
	}
	w.protos["Q"], w.protos["Qbad"] = qi, qibad
	w.idOf[qi.Hash()], w.idOf[qibad.Hash()] = "Q", "Qbad"
	w.QiHash = qi.Hash()

	// states and heads
	sdb := state.NewDatabase(rawdb.NewMemoryDatabase(lg))
	edb := state.NewDatabase(rawdb.NewMemoryDatabase(lg))
	rich := new(big.Int).Mul(big.NewInt(1000), big.NewInt(110*verifC19Gas))
	tight := big.NewInt(105*verifC19Gas + 1) // affords prices 100 and 104 (+value 1), not 110
	mkState := func(i int, nA, nB uint64, bA, bB *big.Int) (common.Hash, error) {
		st, err := state.New(common.Hash{}, common.Hash{}, big.NewInt(0), sdb, edb, nil, loc, lg)
		if err != nil {
			return common.Hash{}, err
		}
		st.SetNonce(w.Addrs[0], nA)
		st.SetNonce(w.Addrs[1], nB)
		st.SetBalance(w.Addrs[0], bA)
		st.SetBalance(w.Addrs[1], bB)
		root := common.BytesToHash([]byte(fmt.Sprintf("verif-c19-root-%d", i)))
		w.states[root] = st
		w.rootIdx[root] = i
		return root, nil
	}
	pt := types.EmptyZoneWorkObject()
	pt.Header().SetExchangeRate(new(big.Int).Exp(big.NewInt(10), big.NewInt(18), nil))
	pt.WorkObjectHeader().SetDifficulty(big.NewInt(1 << 20))
	pt.WorkObjectHeader().SetNonce(types.EncodeNonce(7777))
	w.blocks[pt.Hash()] = pt
	mkHead := func(name string, number uint64, parent common.Hash, nonce uint64, root common.Hash, baseFee int64, ids []string) *types.WorkObject {
		wo := types.EmptyZoneWorkObject()
		h := wo.WorkObjectHeader()
		h.SetNumber(new(big.Int).SetUint64(number))
		h.SetParentHash(parent)
		h.SetNonce(types.EncodeNonce(nonce))
		h.SetDifficulty(big.NewInt(1 << 20))
		h.SetTime(1000 + number)
		wo.Header().SetEVMRoot(root)
		wo.Header().SetGasLimit(verifC19GasLimit)
		wo.Header().SetBaseFee(big.NewInt(baseFee))
		wo.Header().SetExchangeRate(new(big.Int).Exp(big.NewInt(10), big.NewInt(18), nil))
		wo.Header().SetPrimeTerminusHash(pt.Hash())
		var txs []*types.Transaction
		for _, id := range ids {
			txs = append(txs, w.protos[id].VerifC19Clone(true))
		}
		wo.Body().SetTransactions(txs)
		w.Heads = append(w.Heads, wo)
		w.HeadNames = append(w.HeadNames, name)
		w.HeadTxs = append(w.HeadTxs, ids)
		w.blocks[wo.Hash()] = wo
		return wo
	}
	r0, err := mkState(0, 0, 0, rich, rich)
	if err != nil {
		return nil, err
	}
	r1, _ := mkState(1, 1, 0, rich, rich)
	r2, _ := mkState(2, 0, 1, tight, rich)
	h0 := mkHead("H0", 1, common.HexToHash("0xc19f"), 1, r0, 1, nil)
	// H1 includes A0a and the Qi transaction; base fee 102 refuses new price-100 transactions
	mkHead("H1", 2, h0.Hash(), 2, r1, 102, []string{"A0a", "Q"})
	// H1s (sibling of H1) includes B0a; A's balance no longer covers price 110
	mkHead("H1s", 2, h0.Hash(), 3, r2, 1, []string{"B0a"})
	if w.Heads[1].Hash() == w.Heads[2].Hash() || w.Heads[0].Hash() == w.Heads[1].Hash() {
		return nil, errors.New("head hashes collide")
	}
	return w, nil
}

// TxHash returns the hash of a universe transaction.
func (w *VerifC19World) TxHash(id string) common.Hash { return w.protos[id].Hash() }

// ---------------------------------------------------------------------------------------------
// mock chain

type verifC19Sub struct {
	once sync.Once
	err  chan error
}

func (s *verifC19Sub) Err() <-chan error { return s.err }
func (s *verifC19Sub) Unsubscribe()      { s.once.Do(func() { close(s.err) }) }

type verifC19Chain struct {
	w      *VerifC19World
	runs   atomic.Int64 // completed runReorg executions (each asks GetMaxTxInWorkShare exactly once, after its critical section)
	headMu sync.Mutex   // live pool: makes "move the head + announce it" one step
	mu     sync.Mutex
	head   *types.WorkObject
	headCh chan<- ChainHeadEvent
	sub    *verifC19Sub
	owner  map[*state.StateDB]int
}

func (c *verifC19Chain) CurrentBlock() *types.WorkObject {
	c.mu.Lock()
	defer c.mu.Unlock()
	return c.head
}
func (c *verifC19Chain) setHead(h *types.WorkObject) {
	c.mu.Lock()
	c.head = h
	c.mu.Unlock()
}
func (c *verifC19Chain) GetBlock(hash common.Hash, number uint64) *types.WorkObject {
	return c.w.blocks[hash]
}
func (c *verifC19Chain) StateAt(root, etxRoot common.Hash, quaiStateSize *big.Int) (*state.StateDB, error) {
	c.w.stMu.Lock()
	defer c.w.stMu.Unlock()
	st, ok := c.w.states[root]
	if !ok {
		return nil, fmt.Errorf("unknown state root %x", root)
	}
	cp := st.Copy()
	c.mu.Lock()
	c.owner[cp] = c.w.rootIdx[root]
	c.mu.Unlock()
	return cp, nil
}
func (c *verifC19Chain) SubscribeChainHeadEvent(ch chan<- ChainHeadEvent) event.Subscription {
	c.mu.Lock()
	defer c.mu.Unlock()
	c.headCh = ch
	c.sub = &verifC19Sub{err: make(chan error)}
	return c.sub
}
func (c *verifC19Chain) IsGenesisHash(hash common.Hash) bool                    { return false }
func (c *verifC19Chain) CheckIfEtxIsEligible(common.Hash, common.Location) bool { return true }
func (c *verifC19Chain) Engine(header *types.WorkObjectHeader) consensus.Engine { return nil }
func (c *verifC19Chain) GetHeaderOrCandidateByHash(h common.Hash) *types.WorkObject {
	return c.w.blocks[h]
}
func (c *verifC19Chain) NodeCtx() int                                    { return common.ZONE_CTX }
func (c *verifC19Chain) GetHeaderByHash(h common.Hash) *types.WorkObject { return c.w.blocks[h] }
func (c *verifC19Chain) GetBlockByHash(h common.Hash) *types.WorkObject  { return c.w.blocks[h] }
func (c *verifC19Chain) GetMaxTxInWorkShare() uint64                     { c.runs.Add(1); return 1000 }
func (c *verifC19Chain) CheckInCalcOrderCache(common.Hash) (*big.Int, int, bool) {
	return nil, 0, false
}
func (c *verifC19Chain) AddToCalcOrderCache(common.Hash, int, *big.Int) {}
func (c *verifC19Chain) CalcBaseFee(wo *types.WorkObject) *big.Int      { return wo.BaseFee() }
func (c *verifC19Chain) CalcOrder(*types.WorkObject) (*big.Int, int, error) {
	return big.NewInt(0), common.ZONE_CTX, nil
}

// ---------------------------------------------------------------------------------------------
// owned pool (part 1)

type verifC19Run struct {
	reset    *txpoolResetRequest
	dirty    *accountSet
	events   map[common.InternalAddress]*txSortedMap
	queuedQi []*types.Transaction
}

type VerifC19Pool struct {
	W     *VerifC19World
	P     *TxPool
	chain *verifC19Chain
	txs   map[string]*types.Transaction

	// mirror of the local variables of loop() and scheduleReorgLoop()
	loopHead *types.WorkObject
	next     verifC19Run
	inflight *verifC19Run

	keepCaches bool
	Dead       string // non-empty once a section panicked or stalled: the pool lock may be stuck
}

func (w *VerifC19World) headIdx(h *types.WorkObject) int {
	if h == nil {
		return -1
	}
	for i, x := range w.Heads {
		if x == h {
			return i
		}
	}
	return -2
}

// NewOwnedPool builds a real pool with NewTxPool, then shuts its goroutines down with the real
// Stop() and re-arms the shutdown channel, so that the caller is the only goroutine touching it.
func (w *VerifC19World) NewOwnedPool(keepCaches bool) *VerifC19Pool {
	ch := &verifC19Chain{w: w, head: w.Heads[0], owner: map[*state.StateDB]int{}}
	pool := NewTxPool(w.PoolCfg, w.Cfg, ch, w.Logger, w.db)
	pool.Stop()
	pool.reorgShutdownCh = make(chan struct{})
	pool.chainHeadSub = &verifC19Sub{err: make(chan error)}
	p := &VerifC19Pool{W: w, P: pool, chain: ch, txs: map[string]*types.Transaction{}, loopHead: w.Heads[0]}
	p.next.events = map[common.InternalAddress]*txSortedMap{}
	p.keepCaches = keepCaches
	w.hook.take()
	return p
}

// tx returns this pool's own object for universe transaction id (created on first use).
func (p *VerifC19Pool) tx(id string) *types.Transaction {
	if t, ok := p.txs[id]; ok {
		return t
	}
	t := p.W.protos[id].VerifC19Clone(p.keepCaches)
	p.txs[id] = t
	return t
}

// drain empties the pool's request/notification channels exactly as their consumer goroutines
// would (scheduleReorgLoop, sendersGoroutine, feesGoroutine).
func (p *VerifC19Pool) drain() {
	pool := p.P
	for {
		select {
		case req := <-pool.reqPromoteCh:
			if p.next.dirty == nil {
				p.next.dirty = req
			} else {
				p.next.dirty.merge(req)
			}
		case tx := <-pool.queueTxEventCh:
			if tx.Type() == types.QiTxType {
				p.next.queuedQi = append(p.next.queuedQi, tx)
			} else if addr, err := types.Sender(pool.signer, tx); err == nil {
				if internal, err := addr.InternalAndQuaiAddress(); err == nil {
					if _, ok := p.next.events[internal]; !ok {
						p.next.events[internal] = newTxSortedMap()
					}
					p.next.events[internal].Put(tx)
				}
			}
		case s := <-pool.sendersCh:
			pool.ContainsOrAddSender(s.hash, s.sender)
		case f := <-pool.feesCh:
			pool.qiTxFees.ContainsOrAdd(f.hash, f.fee)
		case hs := <-pool.invalidQiTxsCh:
			pool.RemoveQiTxs(hs)
		default:
			return
		}
	}
}

var verifC19Digits = regexp.MustCompile(`(0x)?[0-9a-fA-F]{6,}|[0-9]+`)

// VerifC19ErrClass maps an error to a stable class name.
func VerifC19ErrClass(err error) string {
	if err == nil {
		return "ok"
	}
	s := err.Error()
	if i := strings.Index(s, ", have"); i > 0 {
		s = s[:i]
	}
	s = verifC19Digits.ReplaceAllString(s, "#")
	if len(s) > 60 {
		s = s[:60]
	}
	return "err:" + s
}

// Enabled reports whether ev is meaningful in the current state.
func (p *VerifC19Pool) Enabled(ev VerifC19Event) bool {
	switch ev.K {
	case "head":
		return ev.A >= 0 && ev.A < len(p.W.Heads) && p.W.Heads[ev.A] != p.chain.CurrentBlock()
	case "reorg":
		return p.inflight == nil
	case "launch":
		return p.inflight == nil && (p.next.reset != nil || p.next.dirty != nil)
	case "run":
		return p.inflight != nil
	case "evict":
		a := p.W.Addrs[ev.A]
		return p.P.pending[a] != nil || p.P.queue[a] != nil
	case "price":
		return p.P.gasPrice.Int64() != VerifC19GasPrices[ev.A]
	case "rm":
		return p.P.all.Get(p.W.TxHash(ev.Tx)) != nil
	case "qirm":
		return p.P.qiPool.Contains(p.W.QiHash)
	}
	return true
}

func (p *VerifC19Pool) launch() {
	r := p.next
	p.inflight = &r
	p.next = verifC19Run{events: map[common.InternalAddress]*txSortedMap{}}
}

func (p *VerifC19Pool) run() string {
	r := p.inflight
	p.inflight = nil
	done, cancel := make(chan struct{}), make(chan struct{})
	p.P.runReorg(done, cancel, r.reset, r.dirty, r.events, r.queuedQi)
	switch {
	case r.reset != nil && r.dirty != nil:
		return "reorg:reset+promote"
	case r.reset != nil:
		return "reorg:reset"
	case r.dirty != nil:
		return "reorg:promote"
	}
	return "reorg:idle"
}

func (p *VerifC19Pool) evict(acct int) string {
	pool := p.P
	addr := p.W.Addrs[acct]
	old := time.Now().Add(-2 * pool.config.Lifetime)
	pool.mu.Lock()
	if pool.queue[addr] != nil {
		pool.beats[addr] = old
	}
	if l := pool.pending[addr]; l != nil {
		for _, tx := range l.txs.items {
			tx.VerifC19SetTime(old)
		}
	}
	pool.mu.Unlock()
	// run the REAL loop() with a fast eviction ticker until this account is gone (or 30 ms)
	sub := &verifC19Sub{err: make(chan error)}
	pool.chainHeadSub = sub
	saved := evictionInterval
	evictionInterval = 20 * time.Microsecond
	pool.wg.Add(1)
	go pool.loop()
	deadline := time.Now().Add(10 * time.Second)
	res := "evict:done"
	for {
		pool.mu.RLock()
		gone := pool.queue[addr] == nil && pool.pending[addr] == nil
		pool.mu.RUnlock()
		if gone {
			break
		}
		if time.Now().After(deadline) {
			res = "evict:incomplete"
			break
		}
		runtime.Gosched()
	}
	sub.Unsubscribe() // loop() closes reorgShutdownCh and returns
	pool.wg.Wait()
	evictionInterval = saved
	pool.reorgShutdownCh = make(chan struct{})
	pool.chainHeadSub = &verifC19Sub{err: make(chan error)}
	return res
}

// VerifC19StepResult is what one section returned / logged.
type VerifC19StepResult struct {
	Class  string   // outcome class (accept / error class / reorg flavour)
	Logs   []string // Error-level log messages emitted by the pool during the section
	Panic  string   // panic text (direct or swallowed by the pool's own recover)
	Stall  string   // goroutine dump if the section did not return within the time limit
	Accept bool     // add events: the transaction was accepted (nil error)
}

// Apply executes one section synchronously on the calling goroutine and drains the channels.
// A section that never returns is detected by the caller's supervisor (Stall is filled by it).
func (p *VerifC19Pool) Apply(ev VerifC19Event) (res VerifC19StepResult) {
	if p.Dead != "" {
		res.Class = "dead"
		return
	}
	func() {
		defer func() {
			if r := recover(); r != nil {
				buf := make([]byte, 16<<10)
				buf = buf[:runtime.Stack(buf, false)]
				res.Panic = fmt.Sprintf("panic: %v\n%s", r, buf)
			}
		}()
		res.Class, res.Accept = p.apply(ev)
	}()
	msgs, panics := p.W.hook.take()
	res.Logs = msgs
	if res.Panic == "" && len(panics) > 0 {
		res.Panic = panics[0]
	}
	if res.Panic != "" {
		p.Dead = "panic"
		return
	}
	p.drain()
	return
}

// SwallowedPanics returns panics that the pool's own recover() blocks logged since the last
// section finished (used by the stall supervisor: reset() blocks forever when one of its two
// goroutines panics, because wg.Done is skipped).
func (w *VerifC19World) SwallowedPanics() []string {
	w.hook.mu.Lock()
	defer w.hook.mu.Unlock()
	return append([]string{}, w.hook.panics...)
}

func (p *VerifC19Pool) apply(ev VerifC19Event) (string, bool) {
	pool := p.P
	switch ev.K {
	case "addR", "qiadd", "qibad":
		id := ev.Tx
		if ev.K == "qiadd" {
			id = "Q"
		} else if ev.K == "qibad" {
			id = "Qbad"
		}
		err := pool.AddRemotes([]*types.Transaction{p.tx(id)})[0]
		return VerifC19ErrClass(err), err == nil
	case "addL":
		err := pool.AddLocal(p.tx(ev.Tx))
		return VerifC19ErrClass(err), err == nil
	case "head":
		h := p.W.Heads[ev.A]
		p.chain.setHead(h)
		req := &txpoolResetRequest{p.loopHead, h} // loop(): pool.requestReset(head, ev.Block); head = ev.Block
		if p.next.reset == nil {                  // scheduleReorgLoop: case req := <-pool.reqResetCh
			p.next.reset = req
		} else {
			p.next.reset.newHead = req.newHead
		}
		p.loopHead = h
		return "head", false
	case "reorg":
		p.launch()
		return p.run(), false
	case "launch":
		p.launch()
		return "launch", false
	case "run":
		return p.run(), false
	case "evict":
		return p.evict(ev.A), false
	case "price":
		pool.SetGasPrice(big.NewInt(VerifC19GasPrices[ev.A]))
		return "price", false
	case "rm":
		pool.mu.Lock()
		pool.removeTx(p.W.TxHash(ev.Tx), true)
		pool.mu.Unlock()
		return "rm", false
	case "qirm":
		h := p.W.QiHash
		pool.RemoveQiTxs([]*common.Hash{&h})
		return "qirm", false
	}
	panic("verif: unknown event " + ev.K)
}

// Quiescent: no request outstanding and no run in flight.
func (p *VerifC19Pool) Quiescent() bool {
	return p.inflight == nil && p.next.reset == nil && p.next.dirty == nil
}

// ---------------------------------------------------------------------------------------------
// snapshot

type VerifC19Tx struct {
	ID    string // universe id, or "?<hash>" for a transaction the harness never submitted
	Nonce uint64
	Price int64
	Cost  *big.Int
}

type VerifC19List struct {
	Present bool
	Txs     []VerifC19Tx // from the items map, nonce order
	Index   []uint64     // nonce heap content, sorted
	Cache   []string     // ids of the flatten cache in cache order; nil = no cache
	Costcap *big.Int
	Gascap  uint64
}

type VerifC19Acct struct {
	StateNonce   uint64
	Balance      *big.Int
	PendingNonce uint64 // pendingNonces.get
	Pending      VerifC19List
	Queue        VerifC19List
	Local        bool
	HasBeat      bool
	Beat         time.Time
}

type VerifC19Snap struct {
	PoolHead  int // head whose state the pool currently validates against
	ChainHead int
	GasPrice  int64
	MaxGas    uint64
	Accts     [2]VerifC19Acct
	AllLocal  []string // ids, sorted
	AllRemote []string
	AllSlots  int
	Urgent    []string // heap array order
	Floating  []string
	Stales    int
	Qi        []string // LRU order, oldest first
	Foreign   []string // accounts other than A,B present in pending/queue/beats
	// scheduler mirror
	Sched string
	// configured limits
	Cfg TxPoolConfig
}

func (p *VerifC19Pool) idOf(tx *types.Transaction) string {
	if tx == nil {
		return "<nil>"
	}
	if id, ok := p.W.idOf[tx.Hash()]; ok {
		return id
	}
	return fmt.Sprintf("?%x", tx.Hash().Bytes()[:6])
}

func (w *VerifC19World) snapList(l *txList, idOf func(*types.Transaction) string) VerifC19List {
	var out VerifC19List
	if l == nil {
		return out
	}
	out.Present = true
	for _, tx := range l.txs.items {
		if tx == nil {
			out.Txs = append(out.Txs, VerifC19Tx{ID: "<nil>"})
			continue
		}
		out.Txs = append(out.Txs, VerifC19Tx{ID: idOf(tx), Nonce: tx.Nonce(), Price: tx.GasPrice().Int64(), Cost: tx.Cost()})
	}
	// keyed by map key as well: an item stored under the wrong nonce is a list defect
	for n, tx := range l.txs.items {
		if tx != nil && tx.Nonce() != n {
			out.Txs = append(out.Txs, VerifC19Tx{ID: "misfiled:" + idOf(tx), Nonce: n})
		}
	}
	sort.Slice(out.Txs, func(i, j int) bool {
		if out.Txs[i].Nonce != out.Txs[j].Nonce {
			return out.Txs[i].Nonce < out.Txs[j].Nonce
		}
		return out.Txs[i].ID < out.Txs[j].ID
	})
	out.Index = append([]uint64{}, (*l.txs.index)...)
	sort.Slice(out.Index, func(i, j int) bool { return out.Index[i] < out.Index[j] })
	if l.txs.cache != nil {
		out.Cache = []string{}
		for _, tx := range l.txs.cache {
			out.Cache = append(out.Cache, idOf(tx))
		}
	}
	out.Costcap = new(big.Int).Set(l.costcap)
	out.Gascap = l.gascap
	return out
}

// Snapshot copies everything the invariants and the canonical key need (plain data).
func (p *VerifC19Pool) Snapshot() *VerifC19Snap {
	s := verifC19Snapshot(p.W, p.P, p.chain, p.idOf)
	var sb strings.Builder
	rq := func(r *verifC19Run) {
		if r == nil {
			sb.WriteString("-")
			return
		}
		if r.reset != nil {
			fmt.Fprintf(&sb, "reset(%d>%d)", p.W.headIdx(r.reset.oldHead), p.W.headIdx(r.reset.newHead))
		}
		if r.dirty != nil {
			var ds []string
			for a := range r.dirty.accounts {
				ds = append(ds, p.acctName(a))
			}
			sort.Strings(ds)
			fmt.Fprintf(&sb, "dirty%v", ds)
		}
	}
	sb.WriteString("next=")
	rq(&p.next)
	sb.WriteString(" inflight=")
	rq(p.inflight)
	s.Sched = sb.String()
	return s
}

func (p *VerifC19Pool) acctName(a common.InternalAddress) string {
	for i, x := range p.W.Addrs {
		if x == a {
			return string(rune('A' + i))
		}
	}
	return "?"
}

func verifC19Snapshot(w *VerifC19World, pool *TxPool, chain *verifC19Chain, idOf func(*types.Transaction) string) *VerifC19Snap {
	pool.mu.RLock()
	defer pool.mu.RUnlock()
	s := &VerifC19Snap{Cfg: pool.config}
	chain.mu.Lock()
	if i, ok := chain.owner[pool.currentState]; ok {
		s.PoolHead = i
	} else {
		s.PoolHead = -1
	}
	chain.mu.Unlock()
	s.ChainHead = w.headIdx(chain.CurrentBlock())
	s.GasPrice = pool.gasPrice.Int64()
	s.MaxGas = pool.currentMaxGas
	for i, a := range w.Addrs {
		ac := &s.Accts[i]
		ac.StateNonce = pool.currentState.GetNonce(a)
		ac.Balance = new(big.Int).Set(pool.currentState.GetBalance(a))
		ac.PendingNonce = pool.pendingNonces.get(a)
		ac.Pending = w.snapList(pool.pending[a], idOf)
		ac.Queue = w.snapList(pool.queue[a], idOf)
		ac.Local = pool.locals.contains(a)
		ac.Beat, ac.HasBeat = pool.beats[a]
	}
	known := func(a common.InternalAddress) bool { return a == w.Addrs[0] || a == w.Addrs[1] }
	for a := range pool.pending {
		if !known(a) {
			s.Foreign = append(s.Foreign, "pending:"+a.Hex())
		}
	}
	for a := range pool.queue {
		if !known(a) {
			s.Foreign = append(s.Foreign, "queue:"+a.Hex())
		}
	}
	sort.Strings(s.Foreign)
	pool.all.lock.RLock()
	for _, tx := range pool.all.locals {
		s.AllLocal = append(s.AllLocal, idOf(tx))
	}
	for _, tx := range pool.all.remotes {
		s.AllRemote = append(s.AllRemote, idOf(tx))
	}
	s.AllSlots = pool.all.slots
	pool.all.lock.RUnlock()
	sort.Strings(s.AllLocal)
	sort.Strings(s.AllRemote)
	for _, tx := range pool.priced.urgent.list {
		s.Urgent = append(s.Urgent, idOf(tx))
	}
	for _, tx := range pool.priced.floating.list {
		s.Floating = append(s.Floating, idOf(tx))
	}
	s.Stales = pool.priced.stales
	for _, k := range pool.qiPool.Keys() {
		if id, ok := w.idOf[k]; ok {
			s.Qi = append(s.Qi, id)
		} else {
			s.Qi = append(s.Qi, fmt.Sprintf("?%x", k.Bytes()[:6]))
		}
	}
	return s
}

// Close releases the pool (all goroutines were already stopped).
func (p *VerifC19Pool) Close() {}

// ---------------------------------------------------------------------------------------------
// free-running pool (part 3, -race binary): the real goroutines stay alive

type VerifC19LivePool struct {
	W     *VerifC19World
	P     *TxPool
	chain *verifC19Chain
	txs   map[string]*types.Transaction
}

// VerifC19SetTimers shrinks the package-level intervals (eviction ticker) for the live pass.
func VerifC19SetTimers(evict time.Duration) { evictionInterval = evict }

func (w *VerifC19World) NewLivePool() *VerifC19LivePool {
	ch := &verifC19Chain{w: w, head: w.Heads[0], owner: map[*state.StateDB]int{}}
	pool := NewTxPool(w.PoolCfg, w.Cfg, ch, w.Logger, w.db)
	p := &VerifC19LivePool{W: w, P: pool, chain: ch, txs: map[string]*types.Transaction{}}
	for id, proto := range w.protos {
		p.txs[id] = proto.VerifC19Clone(false)
	}
	return p
}

// Do issues one event through the PUBLIC surface of the pool (head events go through the
// subscribed chain-head channel, exactly like the node's feed).
func (p *VerifC19LivePool) Do(ev VerifC19Event) string {
	pool := p.P
	switch ev.K {
	case "addR":
		return VerifC19ErrClass(pool.AddRemotes([]*types.Transaction{p.txs[ev.Tx]})[0])
	case "addL":
		return VerifC19ErrClass(pool.AddLocal(p.txs[ev.Tx]))
	case "qiadd":
		return VerifC19ErrClass(pool.AddRemotes([]*types.Transaction{p.txs["Q"]})[0])
	case "qibad":
		return VerifC19ErrClass(pool.AddRemotes([]*types.Transaction{p.txs["Qbad"]})[0])
	case "qirm":
		h := p.W.QiHash
		pool.RemoveQiTxs([]*common.Hash{&h})
		return "qirm"
	case "head":
		h := p.W.Heads[ev.A]
		p.chain.headMu.Lock()
		p.chain.setHead(h)
		p.chain.mu.Lock()
		ch := p.chain.headCh
		p.chain.mu.Unlock()
		ch <- ChainHeadEvent{Block: h}
		p.chain.headMu.Unlock()
		return "head"
	case "price":
		pool.SetGasPrice(big.NewInt(VerifC19GasPrices[ev.A]))
		return "price"
	case "evict":
		// mark account ev.A old; the real eviction ticker (VerifC19SetTimers) does the rest
		addr := p.W.Addrs[ev.A]
		old := time.Now().Add(-2 * pool.config.Lifetime)
		pool.mu.Lock()
		if pool.queue[addr] != nil {
			pool.beats[addr] = old
		}
		if l := pool.pending[addr]; l != nil {
			for _, tx := range l.txs.items {
				tx.VerifC19SetTime(old)
			}
		}
		pool.mu.Unlock()
		return "evict"
	case "read":
		// the read-side public API, concurrently with writers
		pool.Stats()
		pool.Content()
		pool.TxPoolPending()
		pool.Nonce(p.W.Addrs[0])
		pool.Locals()
		pool.GasPrice()
		pool.QiPoolPending()
		pool.Status([]common.Hash{p.W.TxHash("A0a"), p.W.TxHash("B1c")})
		pool.ContentFrom(p.W.Addrs[1])
		return "read"
	}
	panic("verif: unknown live event " + ev.K)
}

func (p *VerifC19LivePool) Snapshot() *VerifC19Snap {
	return verifC19Snapshot(p.W, p.P, p.chain, func(tx *types.Transaction) string {
		if tx == nil {
			return "<nil>"
		}
		if id, ok := p.W.idOf[tx.Hash()]; ok {
			return id
		}
		return fmt.Sprintf("?%x", tx.Hash().Bytes()[:6])
	})
}

// ReorgRuns returns the number of runReorg executions that have completed their critical section.
func (p *VerifC19LivePool) ReorgRuns() int64 { return p.chain.runs.Load() }

// HeadBacklog returns the number of chain-head events loop() has not consumed yet.
func (p *VerifC19LivePool) HeadBacklog() int { return len(p.P.chainHeadCh) }

// TakeLogs returns Error-level messages and swallowed panics since the last call.
func (w *VerifC19World) TakeLogs() ([]string, []string) { return w.hook.take() }

func (p *VerifC19LivePool) Stop() { p.P.Stop() }
