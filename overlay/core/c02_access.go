//go:build verif

package core

import (
	"math/big"

	"github.com/dominant-strategies/go-quai/common"
	"github.com/dominant-strategies/go-quai/core/state"
	"github.com/dominant-strategies/go-quai/core/types"
	"github.com/dominant-strategies/go-quai/core/vm"
	"github.com/dominant-strategies/go-quai/log"
	"github.com/dominant-strategies/go-quai/params"
)

// VerifPrepareApplyETX exposes the real staging step used for inbound ETXs (value parked on the
// zero address); the caller resets the zero address afterwards exactly as ApplyTransaction does.
func VerifPrepareApplyETX(statedb *state.StateDB, value *big.Int, loc common.Location) *big.Int {
	return prepareApplyETX(statedb, value, loc)
}

// VerifApplyTransaction runs the real (unexported) applyTransaction for an already built message,
// i.e. ApplyTransaction minus signature recovery: EVM reset, ApplyMessage, ETX gas limits,
// Finalize, receipt construction (receipt.OutboundEtxs).
func VerifApplyTransaction(msg types.Message, parent *types.WorkObject, config *params.ChainConfig, bc ChainContext, gp *types.GasPool, statedb *state.StateDB, blockNumber *big.Int, blockHash common.Hash, tx *types.Transaction, evm *vm.EVM, etxRLimit, etxPLimit *uint64, logger *log.Logger) (*types.Receipt, *big.Int, error) {
	var usedGas, usedState uint64
	return applyTransaction(msg, parent, config, bc, gp, statedb, blockNumber, blockHash, tx, &usedGas, &usedState, evm, etxRLimit, etxPLimit, logger)
}
