//go:build verif

package core

// mininode (engine E4): a real go-quai node closed into one process.
//
// Real core.Slice instances (HeaderChain + BodyDb + StateProcessor + worker + TxPool) are built on
// in-memory databases with an injected consensus.Engine whose proof-of-work hash is read from the
// header's MixHash, so the harness *chooses* the hash. Blocks are assembled by the node's own
// worker, sealed by the harness, passed through the wire encoding and appended through the same
// Slice.Append / HeaderChain.SetCurrentHeader calls the production submit path uses.

import (
	"errors"
	"fmt"
	"io"
	"math/big"
	"os"
	"regexp"
	"sync"
	"time"

	"github.com/dominant-strategies/go-quai/common"
	"github.com/dominant-strategies/go-quai/consensus"
	"github.com/dominant-strategies/go-quai/core/rawdb"
	"github.com/dominant-strategies/go-quai/core/types"
	"github.com/dominant-strategies/go-quai/core/vm"
	"github.com/dominant-strategies/go-quai/ethdb"
	"github.com/dominant-strategies/go-quai/log"
	"github.com/dominant-strategies/go-quai/params"
	"github.com/dominant-strategies/go-quai/trie"
	"github.com/sirupsen/logrus"
	orderedmap "github.com/wk8/go-ordered-map/v2"
	"google.golang.org/protobuf/proto"
)

// VFakeEngine: pow hash = header.MixHash (the harness picks it).
type VFakeEngine struct{}

func (VFakeEngine) Seal(header *types.WorkObject, results chan<- *types.WorkObject, stop <-chan struct{}) error {
	return nil
}
func (VFakeEngine) ComputePowHash(h *types.WorkObjectHeader) (common.Hash, error) {
	return h.MixHash(), nil
}
func (VFakeEngine) ComputePowLight(h *types.WorkObjectHeader) (common.Hash, common.Hash) {
	return h.MixHash(), h.MixHash()
}
func (VFakeEngine) SetThreads(int) {}

var _ consensus.Engine = VFakeEngine{}

// VFatal is the panic value raised when code under test calls logger.Fatal.
type VFatal struct{ Msg string }

func VNewLogger() *log.Logger {
	l := logrus.New()
	l.SetOutput(io.Discard)
	l.SetLevel(logrus.PanicLevel)
	if os.Getenv("VQ_LOG") != "" {
		l.SetOutput(os.Stderr)
		l.SetLevel(logrus.DebugLevel)
	}
	l.ExitFunc = func(int) { panic(VFatal{"logger.Fatal called"}) }
	return l
}

// ---- scaled protocol parameters -------------------------------------------------------------

type VRegime struct {
	Name string
	// forks active from genesis (R1) or never (R0)
	ForksOn bool
}

var (
	VR0 = VRegime{"R0-genesis-rules", false}
	VR1 = VRegime{"R1-forks-active", true}
)

var vScaleOnce sync.Once
var VScaled = map[string]any{}

// VScaleParams shrinks height-valued protocol constants (package vars) so that lockups, trimming,
// epochs, controller windows happen within a handful of blocks. Code is unchanged; only constants.
func VScaleParams(r VRegime) {
	vScaleOnce.Do(func() {
		params.TimeToStartTx = 0
		params.ConversionLockPeriod = 3
		params.LockupByteToBlockDepth = [4]uint64{3, 5, 7, 9}
		params.CoinbaseEpochBlocks = 4
		params.CoinbaseLockupPrecompileKickInHeight = 0
		params.MinerDifficultyWindow = 3
		params.BlocksPerYear = 1 << 40 // lockup multiples stay in "year 0"
		types.TrimDepths = map[uint8]uint64{0: 2, 1: 3, 2: 4, 3: 5, 4: 6, 5: 7}
		inf := uint64(1) << 62
		if r.ForksOn {
			params.ControllerKickInBlock = 1 // prime block 1 has no parent inbound-ETX record (mainnet value is 262000)
			params.ConversionSlipChangeBlock = 0
			params.QiWrappingChangeBlock = 0
			params.SelfDestructRefundForkBlock = 0
			params.SingularityForkBlock = 0
			params.KQuaiChangeBlock = inf
		} else {
			params.ControllerKickInBlock = inf
			params.ConversionSlipChangeBlock = inf
			params.QiWrappingChangeBlock = inf
			params.SelfDestructRefundForkBlock = inf
			params.SingularityForkBlock = inf
			params.KQuaiChangeBlock = inf
		}
		// KawPow / AuxPoW regime is never entered by mininode (pre-fork sealing rules)
		params.KawPowForkBlock = inf
		params.KQuaiResetAfterKawPowForkBlock = inf
		params.ShaEquivalentDifficultyForkBlock = inf
		params.InclusionDepthChangeBlock = inf
		params.ConversionStabilityForkBlock = inf
		params.MaxGrindIncreaseForkBlock = new(big.Int).SetUint64(inf)
		VScaled = map[string]any{
			"regime": r.Name, "TimeToStartTx": 0, "ConversionLockPeriod": 3, "LockupByteToBlockDepth": []int{3, 5, 7, 9},
			"CoinbaseEpochBlocks": 4, "CoinbaseLockupPrecompileKickInHeight": 0, "MinerDifficultyWindow": 3,
			"TrimDepths": "denomination d -> d+2", "KawPowForkBlock": "never", "ControllerKickInBlock": params.ControllerKickInBlock,
		}
	})
}

// ---- node -----------------------------------------------------------------------------------

type VNodeConfig struct {
	Levels       int                          // 1 = zone only, 3 = prime+region+zone
	NewDB        func(ctx int) ethdb.Database // nil = rawdb.NewMemoryDatabase
	ReuseDB      [3]ethdb.Database            // restart on existing databases (ctx-indexed) when non-nil
	IndexUtxos   bool                         // address->outpoint index (ChainConfig.IndexAddressUtxos)
	Alloc        map[common.Address]*big.Int  // Quai accounts credited by block 1 (real GenAllocs path)
	QuaiCoinbase common.Address
	QiCoinbase   common.Address
	GasPrice     *big.Int
	// SnapshotLimit > 0 gives the zone's state processor a state snapshot tree (the flat
	// account/storage layer production nodes run with, CacheConfig.SnapshotLimit = 256 by default);
	// 0 = every read goes to the tries
	SnapshotLimit int
}

type VNode struct {
	Cfg    VNodeConfig
	Sl     [3]*Slice // index = context (0 prime, 1 region, 2 zone); nil when absent
	DB     [3]ethdb.Database
	Heads  [3]*types.WorkObject
	Logger *log.Logger
	Gen    common.Hash
	salt   int64
	// PreDeliver, when set, runs after a block was appended and BEFORE its pending ETXs are handed
	// to the dominant chain (the moment at which a hostile peer's bundle can win the race against
	// the genuine broadcast).
	PreDeliver func(blk *types.WorkObject)
}

var VZoneLoc = common.Location{0, 0}

func vLocFor(ctx int) common.Location {
	switch ctx {
	case 0:
		return common.Location{}
	case 1:
		return common.Location{0}
	}
	return common.Location{0, 0}
}

type vSub struct{ sl *Slice }

func (a vSub) AddPendingEtxs(p types.PendingEtxs) error { return a.sl.AddPendingEtxs(p) }
func (a vSub) AddPendingEtxsRollup(p types.PendingEtxsRollup) error {
	return a.sl.AddPendingEtxsRollup(p)
}
func (a vSub) RequestDomToAppendOrFetch(hash common.Hash, entropy *big.Int, order int) {
}
func (a vSub) Append(header *types.WorkObject, manifest types.BlockManifest, domTerminus common.Hash, domOrigin bool, newInboundEtxs types.Transactions) (types.Transactions, error) {
	// as Core.Append does
	header.WorkObjectHeader().SetPrimaryCoinbase(common.BytesToAddress(header.PrimaryCoinbase().Bytes(), a.sl.NodeLocation()))
	return a.sl.Append(header, domTerminus, domOrigin, newInboundEtxs)
}
func (a vSub) DownloadBlocksInManifest(hash common.Hash, manifest types.BlockManifest, entropy *big.Int) {
}
func (a vSub) GenerateRecoveryPendingHeader(pendingHeader *types.WorkObject, checkpointHashes types.Termini) error {
	return nil
}
func (a vSub) GetPendingEtxsRollupFromSub(hash common.Hash, location common.Location) (types.PendingEtxsRollup, error) {
	return a.sl.GetPendingEtxsRollupFromSub(hash, location)
}
func (a vSub) GetPendingEtxsFromSub(hash common.Hash, location common.Location) (types.PendingEtxs, error) {
	return a.sl.GetPendingEtxsFromSub(hash, location)
}
func (a vSub) NewGenesisPendingHeader(pendingHeader *types.WorkObject, domTerminus common.Hash, hash common.Hash) error {
	return nil
}
func (a vSub) GetManifest(blockHash common.Hash) (types.BlockManifest, error) {
	return a.sl.GetManifest(blockHash)
}
func (a vSub) GetPrimeBlock(blockHash common.Hash) *types.WorkObject {
	return a.sl.GetPrimeBlock(blockHash)
}
func (a vSub) GetKQuaiAndUpdateBit(blockHash common.Hash) (*big.Int, uint8, error) {
	return a.sl.GetKQuaiAndUpdateBit(blockHash)
}
func (a vSub) ReceiveMinedHeader(header *types.WorkObject) error { return nil }

var vChdir sync.Once

// vLocDB gives a database the node location a production engine is opened with (leveldb.New /
// pebble.New take it as a parameter; memorydb reports nil, which makes every record read back from
// disk decode its addresses relative to the wrong location).
type vLocDB struct {
	ethdb.Database
	loc common.Location
}

func (d vLocDB) Location() common.Location { return d.loc }

func vMkSlice(cfg *VNodeConfig, ctx int, db ethdb.Database, fresh bool, logger *log.Logger) (*Slice, common.Hash, error) {
	vChdir.Do(func() {
		os.Chdir(os.Getenv("VERIF_REPO"))
		if _, err := os.Stat("VERSION"); err != nil {
			os.Chdir("/repo")
		}
	})
	loc := vLocFor(ctx)
	cc := *params.ProgpowLocalChainConfig
	cc.Location = loc
	cc.IndexAddressUtxos = cfg.IndexUtxos
	gen := &Genesis{Config: &cc, Nonce: 0, ExtraData: []byte{}, GasLimit: 12000000, Difficulty: big.NewInt(1000)}
	_, ghash, err := SetupGenesisBlock(db, gen, 0, nil, loc, logger)
	if err != nil {
		return nil, common.Hash{}, fmt.Errorf("genesis: %w", err)
	}
	cc.DefaultGenesisHash = ghash
	pow := params.PowConfig{PowMode: params.ModeNormal, DurationLimit: big.NewInt(5), GasCeil: 50000000, MinDifficulty: big.NewInt(1000), NodeLocation: loc}
	for addr, bal := range cfg.Alloc {
		sched := orderedmap.New[uint64, *big.Int]()
		sched.Set(0, new(big.Int).Set(bal))
		pow.GenAllocs = append(pow.GenAllocs, params.GenesisAccount{Address: addr, Award: new(big.Int).Set(bal), BalanceSchedule: sched})
	}
	// deterministic order of allocs (map iteration above): sort by address
	for i := 0; i < len(pow.GenAllocs); i++ {
		for j := i + 1; j < len(pow.GenAllocs); j++ {
			if pow.GenAllocs[j].Address.Hex() < pow.GenAllocs[i].Address.Hex() {
				pow.GenAllocs[i], pow.GenAllocs[j] = pow.GenAllocs[j], pow.GenAllocs[i]
			}
		}
	}
	gp := cfg.GasPrice
	if gp == nil {
		gp = big.NewInt(1)
	}
	mcfg := &Config{QuaiCoinbase: cfg.QuaiCoinbase, QiCoinbase: cfg.QiCoinbase, GasCeil: 50000000, GasPrice: gp, Recommit: time.Hour}
	txc := DefaultTxPoolConfig
	txc.Journal = ""
	txc.NoLocals = true
	txc.ReorgFrequency = time.Hour
	txc.Lifetime = 100 * time.Hour
	txc.Rejournal = time.Hour
	var lim uint64 = 0
	eng := []consensus.Engine{VFakeEngine{}, VFakeEngine{}}
	sl, err := NewSlice(db, mcfg, pow, &txc, &lim, &cc, []common.Location{VZoneLoc}, 0, nil, eng, &CacheConfig{TrieCleanLimit: 16, TrieDirtyLimit: 16, SnapshotLimit: cfg.SnapshotLimit}, vm.Config{}, gen, logger)
	if err != nil {
		return nil, common.Hash{}, err
	}
	// The zone worker regenerates its pending header from a 1-second ticker (asyncStateLoop), in a
	// goroutine serialised with the node's own callers by hc.headermu. The harness drives the
	// worker itself, so that background source of nondeterminism is switched off: stop the loop,
	// wait out an invocation that may already be in flight, and leave a fresh exit channel behind
	// so that the regular shutdown path can still close it.
	if w := sl.miner.worker; ctx == common.ZONE_CTX && sl.ProcessingState() {
		close(w.exitCh)
		w.wg.Wait()
		sl.hc.headermu.Lock()
		sl.hc.headermu.Unlock()
		w.exitCh = make(chan struct{})
	}
	return sl, ghash, nil
}

func VNewNode(cfg VNodeConfig) (*VNode, error) {
	if cfg.Levels == 0 {
		cfg.Levels = 1
	}
	if cfg.QuaiCoinbase.Equal(common.Address{}) {
		cfg.QuaiCoinbase = common.HexToAddress("0x0000000000000000000000000000000000000001", VZoneLoc)
	}
	if cfg.QiCoinbase.Equal(common.Address{}) {
		cfg.QiCoinbase = common.HexToAddress("0x0080000000000000000000000000000000000001", VZoneLoc)
	}
	n := &VNode{Cfg: cfg, Logger: VNewLogger()}
	first := 2
	if cfg.Levels == 3 {
		first = 0
	}
	for ctx := first; ctx <= 2; ctx++ {
		var db ethdb.Database
		fresh := true
		if cfg.ReuseDB[ctx] != nil {
			db, fresh = cfg.ReuseDB[ctx], false
		} else if cfg.NewDB != nil {
			db = cfg.NewDB(ctx)
		} else {
			db = rawdb.NewMemoryDatabase(n.Logger)
		}
		if _, ok := db.(vLocDB); !ok {
			db = vLocDB{Database: db, loc: vLocFor(ctx)}
		}
		sl, gh, err := vMkSlice(&cfg, ctx, db, fresh, n.Logger)
		if err != nil {
			return nil, fmt.Errorf("ctx %d: %w", ctx, err)
		}
		n.Sl[ctx], n.DB[ctx], n.Gen = sl, db, gh
		n.Heads[ctx] = sl.hc.CurrentHeader()
	}
	if cfg.Levels == 3 {
		n.Sl[0].SetSubInterface(vSub{n.Sl[1]}, common.Location{0})
		n.Sl[1].SetSubInterface(vSub{n.Sl[2]}, common.Location{0, 0})
		n.Sl[1].SetDomInterface(vSub{n.Sl[0]})
		n.Sl[2].SetDomInterface(vSub{n.Sl[1]})
		// Slice.init of a fresh prime chain spawns `go NewGenesisPendingHeader`, which spins until the
		// sub interface is wired and then drives the prime worker. Driving the same worker from the
		// harness concurrently deadlocks on worker.mu (prepareWork re-enters RLock while pickCoinbases
		// waits for Lock), so wait until that start-up goroutine has published its pending header.
		if cfg.ReuseDB[0] == nil {
			deadline := time.Now().Add(60 * time.Second)
			for n.Sl[0].ReadBestPh() == nil {
				if time.Now().After(deadline) {
					return nil, errors.New("harness: prime genesis pending header never published")
				}
				time.Sleep(100 * time.Microsecond)
			}
		}
	}
	return n, nil
}

func (n *VNode) Zone() *Slice { return n.Sl[2] }

// Close stops the slices (best effort; a real node leaks ~1 goroutine per instance).
func (n *VNode) Close() {
	for ctx := 0; ctx < 3; ctx++ {
		if sl := n.Sl[ctx]; sl != nil {
			func() {
				defer func() { recover() }()
				sl.WriteBestPh(n.Heads[ctx])
				sl.Stop()
			}()
		}
	}
}

func VRoundTrip(wo *types.WorkObject, loc common.Location) (*types.WorkObject, error) {
	pw, err := wo.ProtoEncode(types.BlockObject)
	if err != nil {
		return nil, err
	}
	raw, err := proto.Marshal(pw)
	if err != nil {
		return nil, err
	}
	pw2 := new(types.ProtoWorkObject)
	if err := proto.Unmarshal(raw, pw2); err != nil {
		return nil, err
	}
	blk := new(types.WorkObject)
	if err := blk.ProtoDecode(pw2, loc, types.BlockObject); err != nil {
		return nil, err
	}
	return blk, nil
}

type VBuildOpts struct {
	Order    int  // wanted order: 2 zone, 1 region, 0 prime (forced to 2 on a zone-only node)
	Fill     bool // let the worker include the mempool
	QiMiner  bool // miner preference: Qi coinbase (only effective once the controller kicked in)
	LockByte uint8
	// CoinbaseData overrides the work-object header's data (lock byte [+ contract [+ delegate]])
	CoinbaseData []byte
	Coinbase     *common.Address
	Salt         int64                      // distinguishes sibling blocks
	PreSeal      func(wo *types.WorkObject) // evil-miner hook: mutate the assembled block before sealing
	NoReseal     bool
	// ExtraTxs: transactions a FOREIGN miner puts into the block although this node's own worker
	// would never select them (e.g. a Qi transaction spending an output created earlier in the same
	// block). They are inserted after the inbound ETXs / Qi transactions; every declared result of
	// the header is then recomputed by running the real StateProcessor.Process on the candidate
	// (vForeignFix), so the block is valid iff Process accepts its body.
	ExtraTxs []*types.Transaction
}

// Build assembles (with the node's own worker), seals and wire-encodes a block on top of the
// current Heads. It does not append it.
func (n *VNode) Build(o VBuildOpts) (*types.WorkObject, error) {
	comb, err := n.buildUnsealed(o)
	if err != nil {
		return nil, err
	}
	if n.Cfg.Levels == 1 {
		o.Order = 2
	}
	if len(o.ExtraTxs) > 0 {
		if err := n.vForeignFix(comb, o.ExtraTxs); err != nil {
			return nil, VForeignRefused{err}
		}
	}
	return n.Seal(comb, o.Order, o.Salt)
}

// VForeignRefused: the real Process refuses the body a foreign miner wanted to assemble (there is no
// valid block with these transactions on this parent).
type VForeignRefused struct{ Err error }

func (e VForeignRefused) Error() string {
	return "foreign assembly refused by Process: " + e.Err.Error()
}
func (e VForeignRefused) Unwrap() error { return e.Err }

var vRemoteLocal = regexp.MustCompile(`^invalid (avgTxFees|totalFees) used \(remote: (\d+) local: (\d+)\)`)

// vForeignFix adds extra transactions to a worker-assembled block and recomputes the declared
// results from the outputs of the real Process (fee totals are taken from Process' own refusal
// message, which names the value it derived).
func (n *VNode) vForeignFix(comb *types.WorkObject, extra []*types.Transaction) error {
	txs := comb.Body().Transactions()
	pos := len(txs)
	for i, t := range txs {
		if t.Type() == types.QuaiTxType {
			pos = i
			break
		}
	}
	newTxs := append(append(append(types.Transactions{}, txs[:pos]...), extra...), txs[pos:]...)
	comb.Body().SetTransactions(newTxs)
	comb.Header().SetTxHash(types.DeriveSha(newTxs, trie.NewStackTrie(nil)))
	for iter := 0; iter < 8; iter++ {
		comb.WorkObjectHeader().SetHeaderHash(comb.Header().Hash())
		blk, err := VRoundTrip(comb, VZoneLoc)
		if err != nil {
			return err
		}
		batch := n.DB[2].NewBatch()
		receipts, etxs, _, statedb, usedGas, usedState, _, multiSet, _, perr := n.Sl[2].hc.bc.processor.Process(blk, batch)
		batch.Reset()
		if perr != nil {
			if m := vRemoteLocal.FindStringSubmatch(perr.Error()); m != nil {
				v, _ := new(big.Int).SetString(m[3], 10)
				if m[1] == "avgTxFees" {
					comb.Header().SetAvgTxFees(v)
				} else {
					comb.Header().SetTotalFees(v)
				}
				continue
			}
			return perr
		}
		h := comb.Header()
		h.SetGasUsed(usedGas)
		h.SetStateUsed(usedState)
		h.SetReceiptHash(types.DeriveSha(receipts, trie.NewStackTrie(nil)))
		h.SetEVMRoot(statedb.IntermediateRoot(true))
		h.SetQuaiStateSize(statedb.GetQuaiTrieSize())
		h.SetUTXORoot(multiSet.Hash())
		h.SetEtxSetRoot(statedb.ETXRoot())
		out := types.Transactions(etxs)
		comb.Body().SetOutboundEtxs(out)
		h.SetOutboundEtxHash(types.DeriveSha(out, trie.NewStackTrie(nil)))
		comb.WorkObjectHeader().SetHeaderHash(h.Hash())
		return nil
	}
	return errors.New("declared fee totals did not converge")
}

// buildUnsealed: the worker-assembled, harness-finished block before a pow hash is chosen.
func (n *VNode) buildUnsealed(o VBuildOpts) (*types.WorkObject, error) {
	if n.Cfg.Levels == 1 {
		o.Order = 2
	}
	var phs [3]*types.WorkObject
	for c := 0; c < 3; c++ {
		sl := n.Sl[c]
		if sl == nil {
			continue
		}
		if err := sl.hc.SetCurrentHeader(n.Heads[c]); err != nil {
			return nil, fmt.Errorf("ctx %d set head: %w", c, err)
		}
		w := sl.miner.worker
		if c == 2 {
			if o.QiMiner {
				w.config.MinerPreference = 1
			} else {
				w.config.MinerPreference = 0
			}
			w.SetLockupByte(o.LockByte)
			if o.Coinbase != nil {
				if o.Coinbase.IsInQiLedgerScope() {
					w.qiCoinbase = *o.Coinbase
				} else {
					w.quaiCoinbase = *o.Coinbase
				}
			} else {
				w.quaiCoinbase, w.qiCoinbase = n.Cfg.QuaiCoinbase, n.Cfg.QiCoinbase
			}
		}
		ph, err := w.GeneratePendingHeader(n.Heads[c], o.Fill)
		if err != nil {
			return nil, fmt.Errorf("ctx %d generate pending header: %w", c, err)
		}
		phs[c] = ph
	}
	comb := phs[2]
	if n.Cfg.Levels == 3 {
		z := n.Sl[2]
		comb = z.combinePendingHeader(phs[1], phs[0], common.REGION_CTX, true)
		comb = z.combinePendingHeader(phs[2], comb, common.ZONE_CTX, true)
	}
	comb = types.CopyWorkObject(comb)
	comb.WorkObjectHeader().SetLocation(VZoneLoc)
	comb.WorkObjectHeader().SetAuxPow(nil)
	if o.CoinbaseData != nil {
		comb.WorkObjectHeader().SetData(o.CoinbaseData)
	}
	if o.PreSeal != nil {
		o.PreSeal(comb)
	}
	if !o.NoReseal {
		comb.WorkObjectHeader().SetHeaderHash(comb.Header().Hash())
	}
	return comb, nil
}

// Seal chooses a pow hash (MixHash) at or below target that yields the wanted order according to
// the node's own CalcOrder, and returns the wire round-tripped block.
func (n *VNode) Seal(comb *types.WorkObject, order int, salt int64) (*types.WorkObject, error) {
	if comb.Difficulty().Sign() <= 0 {
		return nil, errors.New("non-positive difficulty")
	}
	target := new(big.Int).Div(common.Big2e256, comb.Difficulty())
	n.salt++
	var blk *types.WorkObject
	for k := uint(0); k < 250; k++ {
		h := new(big.Int).Rsh(new(big.Int).Mul(target, big.NewInt(3)), k+2)
		h.Sub(h, big.NewInt(salt+1))
		if h.Sign() <= 0 {
			break
		}
		comb.WorkObjectHeader().SetMixHash(common.BigToHash(h))
		var err error
		blk, err = VRoundTrip(comb, VZoneLoc)
		if err != nil {
			return nil, fmt.Errorf("wire round trip: %w", err)
		}
		_, o2, err := n.Sl[2].hc.CalcOrder(blk)
		if err != nil {
			return nil, fmt.Errorf("calc order: %w", err)
		}
		if o2 == order {
			return blk, nil
		}
		if o2 < order {
			break
		}
	}
	return nil, fmt.Errorf("no pow hash gives order %d", order)
}

// VAppendResult describes how far a block got.
type VAppendResult struct {
	Order     int
	AppendErr error // Slice.Append
	HeadErr   error // SetCurrentHeader (state processing happens here in the zone)
}

func (r VAppendResult) Err() error {
	if r.AppendErr != nil {
		return r.AppendErr
	}
	return r.HeadErr
}

// Insert feeds a sealed block through the production insert path WITHOUT making it the head: store
// the block blob in every chain whose context >= order (dom chains get the header-only view with
// their sub manifest), call Slice.Append on the slice of the block's order (which descends into
// its subs) and hand the pending ETXs to the dom.
func (n *VNode) Insert(blk *types.WorkObject) (int, error) {
	_, order, err := n.Sl[2].hc.CalcOrder(blk)
	if err != nil {
		return -1, err
	}
	if n.Cfg.Levels == 1 {
		order = 2
	}
	for c := order; c < 3; c++ {
		b, err := VRoundTrip(blk, VZoneLoc)
		if err != nil {
			return order, err
		}
		if c < 2 {
			b.Body().SetTransactions(nil)
			b.Body().SetUncles(nil)
			b.Body().SetOutboundEtxs(nil)
			b.Body().SetManifest(nil)
			if c == 0 {
				b.Body().SetInterlinkHashes(rawdb.ReadInterlinkHashes(n.Sl[0].sliceDb, b.ParentHash(0)))
			}
			b, err = n.Sl[c].fillSubordinateManifest(b)
			if err != nil {
				return order, fmt.Errorf("fill manifest ctx %d: %w", c, err)
			}
		}
		n.Sl[c].WriteBlock(b)
	}
	cp, _ := VRoundTrip(blk, VZoneLoc)
	pend, err := n.Sl[order].Append(cp, common.Hash{}, false, nil)
	if err != nil {
		return order, err
	}
	if n.PreDeliver != nil {
		n.PreDeliver(blk)
	}
	if order > 0 && n.Cfg.Levels == 3 {
		pe := types.PendingEtxs{Header: blk.ConvertToPEtxView(), OutboundEtxs: pend}
		n.Sl[order].domInterface.AddPendingEtxs(pe)
	}
	return order, nil
}

// SetHead makes an inserted block the head of every chain whose context >= order: zone first (state
// processing / reorganisation happens there), then the doms.
func (n *VNode) SetHead(blk *types.WorkObject, order int) error {
	for c := 2; c >= order; c-- {
		if n.Sl[c] == nil {
			continue
		}
		if err := n.Sl[c].hc.SetCurrentHeader(blk); err != nil {
			return fmt.Errorf("ctx %d: %w", c, err)
		}
	}
	for c := order; c < 3; c++ {
		if n.Sl[c] != nil {
			n.Heads[c] = blk
		}
	}
	n.poolReset(blk)
	return nil
}

// Append = Insert + SetHead (what a node does with a block that extends its best chain).
func (n *VNode) Append(blk *types.WorkObject) VAppendResult {
	res := VAppendResult{Order: -1}
	order, err := n.Insert(blk)
	res.Order = order
	if err != nil {
		res.AppendErr = err
		return res
	}
	if err := n.SetHead(blk, order); err != nil {
		res.HeadErr = err
	}
	return res
}

// poolReset tells the pool about the new head synchronously (the production node does this through
// the chain-head feed).
func (n *VNode) poolReset(newHead *types.WorkObject) {
	z := n.Sl[2]
	if z == nil || z.txPool == nil {
		return
	}
	done := z.txPool.requestReset(nil, newHead)
	select {
	case <-done:
	case <-time.After(30 * time.Second):
		panic("harness: pool reset did not complete")
	}
}

// Mine = Build + Append.
func (n *VNode) Mine(o VBuildOpts) (*types.WorkObject, error) {
	blk, err := n.Build(o)
	if err != nil {
		return nil, err
	}
	if r := n.Append(blk); r.Err() != nil {
		return blk, VOwnBlockRejected{r.Err()}
	}
	return blk, nil
}

// VOwnBlockRejected: the node refused a block its own worker had just assembled.
type VOwnBlockRejected struct{ Err error }

func (e VOwnBlockRejected) Error() string { return "own block rejected: " + e.Err.Error() }
func (e VOwnBlockRejected) Unwrap() error { return e.Err }

// SetHeads rewinds/forwards the harness' notion of the tips (used to build forks).
func (n *VNode) SetHeads(h [3]*types.WorkObject) { n.Heads = h }

// VScaleLockBytes additionally shrinks the "first two months" window so that non-zero lockup bytes
// (and their reward multiples) become legal after a handful of blocks. Must be called before
// VScaleParams' values are relied upon by a node; used by the reward/lockup check only.
func VScaleLockBytes() {
	params.BlocksPerMonth = 2
	VScaled["BlocksPerMonth"] = 2
}

// VMakeWorkShare builds a work share on the current zone head: the worker's pending header for the
// given miner, sealed with a pow hash ABOVE the block target but within the work-share threshold
// (target * 2^WorkSharesThresholdDiff), registered with the worker so that following blocks may
// include it as an uncle.
func (n *VNode) VMakeWorkShare(coinbase common.Address, lock uint8, salt int64) (*types.WorkObjectHeader, error) {
	cb := coinbase
	wo, err := n.buildUnsealed(VBuildOpts{Order: 2, Fill: false, Coinbase: &cb, LockByte: lock})
	if err != nil {
		return nil, err
	}
	target := new(big.Int).Div(common.Big2e256, wo.Difficulty())
	h := new(big.Int).Mul(target, big.NewInt(4))
	h.Sub(h, big.NewInt(salt+1))
	wo.WorkObjectHeader().SetMixHash(common.BigToHash(h))
	rt, err := VRoundTrip(wo, VZoneLoc)
	if err != nil {
		return nil, err
	}
	ws := rt.WorkObjectHeader()
	if err := n.Sl[2].miner.worker.AddWorkShare(ws); err != nil {
		return nil, err
	}
	return ws, nil
}
