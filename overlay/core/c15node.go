//go:build verif

package core

// C15 harness support: a real zone Slice/Core (memory DB, fake seal = MixHash) that has appended a
// few blocks, so that the production pre-validation functions (BlockValidator sanity checks, PoW
// filter, tx-pool admission, Core.SubmitBlock, rawdb readers) can be driven with hostile inputs.

import (
	"fmt"
	"io"
	"math/big"
	"os"
	"time"

	lru "github.com/hashicorp/golang-lru/v2"
	expireLru "github.com/hashicorp/golang-lru/v2/expirable"
	"github.com/sirupsen/logrus"
	"google.golang.org/protobuf/proto"

	"github.com/dominant-strategies/go-quai/common"
	"github.com/dominant-strategies/go-quai/consensus"
	"github.com/dominant-strategies/go-quai/core/rawdb"
	"github.com/dominant-strategies/go-quai/core/types"
	"github.com/dominant-strategies/go-quai/core/vm"
	"github.com/dominant-strategies/go-quai/ethdb"
	"github.com/dominant-strategies/go-quai/log"
	"github.com/dominant-strategies/go-quai/params"
)

// verifC15Engine: the pow hash of a header is its mix hash (the harness chooses it).
type verifC15Engine struct{}

func (verifC15Engine) Seal(header *types.WorkObject, results chan<- *types.WorkObject, stop <-chan struct{}) error {
	return nil
}

// The lowest bit is forced so that the all-zero hash (which no real PoW function yields) cannot be
// produced by zeroing the mix hash field.
func verifC15Pow(h *types.WorkObjectHeader) common.Hash {
	p := h.MixHash()
	p[common.HashLength-1] |= 1
	return p
}
func (verifC15Engine) ComputePowHash(h *types.WorkObjectHeader) (common.Hash, error) {
	return verifC15Pow(h), nil
}
func (verifC15Engine) ComputePowLight(h *types.WorkObjectHeader) (common.Hash, common.Hash) {
	return h.MixHash(), verifC15Pow(h)
}
func (verifC15Engine) SetThreads(int) {}

type VerifC15Node struct {
	Core   *Core
	Sl     *Slice
	Db     ethdb.Database
	Logger *log.Logger
	Loc    common.Location
	Blocks []*types.WorkObject // appended blocks (wire round-tripped), oldest first
	Gen    common.Hash
}

func VerifC15Logger() *log.Logger {
	l := logrus.New()
	l.SetOutput(io.Discard)
	l.SetLevel(logrus.ErrorLevel)
	l.ExitFunc = func(int) { panic("logger.Fatal called") }
	return l
}

// VerifC15NewNode builds a zone-[0,0] node and appends nblocks blocks to it.
func VerifC15NewNode(nblocks int) (*VerifC15Node, error) {
	os.Chdir("/repo")
	logger := VerifC15Logger()
	loc := common.Location{0, 0}
	db := rawdb.NewMemoryDatabase(logger)
	cc := *params.ProgpowLocalChainConfig
	cc.Location = loc
	gen := &Genesis{Config: &cc, Nonce: 0, ExtraData: []byte{}, GasLimit: 12000000, Difficulty: big.NewInt(1000)}
	_, ghash, err := SetupGenesisBlock(db, gen, 0, nil, loc, logger)
	if err != nil {
		return nil, err
	}
	cc.DefaultGenesisHash = ghash
	pow := params.PowConfig{PowMode: params.ModeNormal, DurationLimit: big.NewInt(5), GasCeil: 50000000, MinDifficulty: big.NewInt(1000), NodeLocation: loc}
	qc := common.HexToAddress("0x0000000000000000000000000000000000000001", loc)
	mcfg := &Config{QuaiCoinbase: qc, QiCoinbase: common.HexToAddress("0x0080000000000000000000000000000000000001", loc), GasCeil: 50000000, GasPrice: big.NewInt(1), Recommit: time.Hour}
	txc := DefaultTxPoolConfig
	txc.Journal = ""
	txc.NoLocals = true
	txc.ReorgFrequency = time.Hour
	var lim uint64 = 0
	eng := []consensus.Engine{verifC15Engine{}, verifC15Engine{}}
	sl, err := NewSlice(db, mcfg, pow, &txc, &lim, &cc, []common.Location{loc}, 0, nil, eng, &CacheConfig{TrieCleanLimit: 16, TrieDirtyLimit: 16, SnapshotLimit: 0}, vm.Config{}, gen, logger)
	if err != nil {
		return nil, err
	}
	n := &VerifC15Node{Sl: sl, Db: db, Logger: logger, Loc: loc, Gen: ghash}
	head := sl.hc.CurrentHeader()
	for i := 0; i < nblocks; i++ {
		if err := sl.hc.SetCurrentHeader(head); err != nil {
			return nil, fmt.Errorf("set head %d: %v", i, err)
		}
		// the worker's own asyncStateLoop regenerates the pending header every second under
		// hc.headermu; take the same lock so that the two never interleave
		sl.hc.headermu.Lock()
		ph, err := sl.miner.worker.GeneratePendingHeader(head, true)
		sl.hc.headermu.Unlock()
		if err != nil {
			return nil, fmt.Errorf("pending header %d: %v", i, err)
		}
		target := new(big.Int).Div(common.Big2e256, ph.Difficulty())
		h := new(big.Int).Sub(target, big.NewInt(int64(i+1)))
		ph.WorkObjectHeader().SetMixHash(common.BigToHash(h))
		ph.WorkObjectHeader().SetAuxPow(nil)
		ph.WorkObjectHeader().SetHeaderHash(ph.Header().Hash())
		pw, err := ph.ProtoEncode(types.BlockObject)
		if err != nil {
			return nil, err
		}
		raw, _ := proto.Marshal(pw)
		pw2 := new(types.ProtoWorkObject)
		if err := proto.Unmarshal(raw, pw2); err != nil {
			return nil, err
		}
		blk := new(types.WorkObject)
		if err := blk.ProtoDecode(pw2, loc, types.BlockObject); err != nil {
			return nil, err
		}
		sl.WriteBlock(blk)
		if _, err = sl.Append(blk, common.Hash{}, false, nil); err != nil {
			return nil, fmt.Errorf("append %d: %v", i, err)
		}
		head = blk
		n.Blocks = append(n.Blocks, blk)
	}
	if err := sl.hc.SetCurrentHeader(head); err != nil {
		return nil, fmt.Errorf("final set head: %v", err)
	}
	// stop the worker's timer loops: nothing may allocate or take locks in the background while
	// entry points are being measured
	sl.miner.worker.close()
	// A Core around the slice, without its background goroutines (append queue, stats timer):
	// the harness only calls synchronous entry points.
	c := &Core{sl: sl, engine: eng, quit: make(chan struct{}), normalListBackoff: 1, logger: logger}
	c.appendQueue, _ = lru.New[common.Hash, blockNumberAndRetryCounter](c_maxAppendQueue)
	c.processingCache = expireLru.NewLRU[common.Hash, interface{}](c_processingCache, nil, time.Second*60)
	c.remoteTxQueue, _ = lru.New[common.Hash, types.Transaction](c_maxRemoteTxQueue)
	n.Core = c
	return n, nil
}

// VerifC15PoolAddRemotes is the admission path of gossiped transactions (work-share bodies):
// QuaiBackend.OnNewBroadcast -> SendRemoteTxs -> TxPool.AddRemotes.
func (n *VerifC15Node) VerifC15PoolAddRemotes(txs []*types.Transaction) []error {
	return n.Sl.txPool.AddRemotes(txs)
}

// VerifC15PoolAddLocal is the admission path of quai_sendRawTransaction.
func (n *VerifC15Node) VerifC15PoolAddLocal(tx *types.Transaction) error {
	return n.Sl.txPool.AddLocal(tx)
}

// VerifC15PoolReset drops everything the pool accumulated (keeps harness memory flat).
func (n *VerifC15Node) VerifC15PoolReset() (pending, queued int) {
	p, q, _ := n.Sl.txPool.Stats()
	return p, q
}

func (n *VerifC15Node) VerifC15Validator() *BlockValidator { return n.Sl.validator.(*BlockValidator) }

func (n *VerifC15Node) VerifC15AppendQueueLen() int { return n.Core.appendQueue.Len() }
func (n *VerifC15Node) VerifC15PurgeQueues() {
	n.Core.appendQueue.Purge()
	n.Core.remoteTxQueue.Purge()
}
