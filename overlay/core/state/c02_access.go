//go:build verif

package state

import (
	"sort"

	"github.com/dominant-strategies/go-quai/common"
)

// VerifLiveAddresses returns every account address that has a live state object in this StateDB
// (everything read, created or modified since the StateDB was opened), sorted. Together with the
// committed pre-state accounts this is the full set of accounts whose balance can differ from the
// pre-state (C02 full balance dump).
func (s *StateDB) VerifLiveAddresses() []common.InternalAddress {
	out := make([]common.InternalAddress, 0, len(s.stateObjects))
	for a := range s.stateObjects {
		out = append(out, a)
	}
	sort.Slice(out, func(i, j int) bool { return string(out[i][:]) < string(out[j][:]) })
	return out
}
