//go:build verif

package state

// C12 access shim: read-only renderings of StateDB internals that have no exported getter.
// Nothing here mutates the StateDB.

import (
	"fmt"
	"sort"
	"strings"

	"github.com/dominant-strategies/go-quai/common"
)

// VerifC12LogSize is the running log index counter (decides Log.Index of the next log).
func VerifC12LogSize(s *StateDB) uint { return s.logSize }

// VerifC12Logs renders every log of every transaction hash, sorted by hash, in emission order.
func VerifC12Logs(s *StateDB) string {
	hs := make([]common.Hash, 0, len(s.logs))
	for h := range s.logs {
		hs = append(hs, h)
	}
	sort.Slice(hs, func(i, j int) bool { return hs[i].Hex() < hs[j].Hex() })
	var sb strings.Builder
	for _, h := range hs {
		fmt.Fprintf(&sb, "%x:[", h[:4])
		for _, l := range s.logs[h] {
			fmt.Fprintf(&sb, "{a=%x t=%d d=%x tx=%x ti=%d i=%d}", l.Address.Bytes(), len(l.Topics), l.Data, l.TxHash[:4], l.TxIndex, l.Index)
		}
		sb.WriteString("]")
	}
	return sb.String()
}

// VerifC12AccessList renders the complete access list (every address, every slot), sorted.
func VerifC12AccessList(s *StateDB) string {
	al := s.accessList
	type ent struct {
		a     string
		slots []string
	}
	var es []ent
	for addr, idx := range al.addresses {
		e := ent{a: fmt.Sprintf("%x", addr[:])}
		if idx >= 0 && idx < len(al.slots) {
			for sl := range al.slots[idx] {
				e.slots = append(e.slots, fmt.Sprintf("%x", sl[28:]))
			}
			sort.Strings(e.slots)
		} else if idx >= 0 {
			e.slots = []string{"BAD-INDEX"}
		}
		es = append(es, e)
	}
	sort.Slice(es, func(i, j int) bool { return es[i].a < es[j].a })
	var sb strings.Builder
	for _, e := range es {
		fmt.Fprintf(&sb, "%s%v;", e.a, e.slots)
	}
	return sb.String()
}

// VerifC12Transient renders the complete transient storage, sorted.
func VerifC12Transient(s *StateDB) string {
	var out []string
	for a, st := range s.transientStorage {
		for k, v := range st {
			out = append(out, fmt.Sprintf("%x/%x=%x", a[:], k[28:], v[28:]))
		}
	}
	sort.Strings(out)
	return strings.Join(out, ";")
}

// VerifC12Object reports the unexported per-account flags and the storage root of the live object
// (ok=false when the account has no live object and is not in the trie).
func VerifC12Object(s *StateDB, a common.InternalAddress) (root common.Hash, suicided, deleted bool, ok bool) {
	obj := s.getDeletedStateObject(a)
	if obj == nil {
		return common.Hash{}, false, false, false
	}
	return obj.data.Root, obj.suicided, obj.deleted, true
}
