//go:build verif

package state

import "math/big"

// VSetEtxIndices presets the oldest/newest index cells of the ETX queue (to let a bounded exploration
// cross the 1->2->3 byte boundaries of the index keys without pushing 65k items).
func (s *StateDB) VSetEtxIndices(oldest, newest uint64) error {
	if err := s.etxTrie.TryUpdate(oldestEtxKey[:], new(big.Int).SetUint64(oldest).Bytes()); err != nil {
		return err
	}
	return s.etxTrie.TryUpdate(newestEtxKey[:], new(big.Int).SetUint64(newest).Bytes())
}
