//go:build verif

package state

import (
	"fmt"
	"sort"
	"strings"

	"github.com/dominant-strategies/go-quai/common"
	"github.com/dominant-strategies/go-quai/trie"
)

// VerifC16Digest renders every field of the StateDB that can influence a future operation of the
// C16 alphabet (live objects with their caches and flags, pending/dirty sets, journal shape,
// revisions, memoised error, trie root). Two StateDBs with the same digest have the same futures
// under that alphabet, which makes it a sound BFS deduplication key.
func VerifC16Digest(s *StateDB) string {
	var sb strings.Builder
	addrs := make([]common.InternalAddress, 0, len(s.stateObjects))
	for a := range s.stateObjects {
		addrs = append(addrs, a)
	}
	sort.Slice(addrs, func(i, j int) bool { return addrs[i].Cmp(addrs[j]) < 0 })
	st := func(name string, m Storage) {
		if len(m) == 0 {
			return
		}
		ks := make([]string, 0, len(m))
		for k, v := range m {
			ks = append(ks, fmt.Sprintf("%x=%x", k[28:], v[28:]))
		}
		sort.Strings(ks)
		fmt.Fprintf(&sb, " %s{%s}", name, strings.Join(ks, ","))
	}
	for _, a := range addrs {
		o := s.stateObjects[a]
		fmt.Fprintf(&sb, "[%x n=%d b=%s c=%x r=%x z=%s s=%v d=%v dc=%v", a[:], o.data.Nonce, o.data.Balance, o.data.CodeHash[:4], o.data.Root[:4], o.data.Size, o.suicided, o.deleted, o.dirtyCode)
		st("dirty", o.dirtyStorage)
		st("pend", o.pendingStorage)
		st("orig", o.originStorage)
		st("new", o.uniqueNewKeysStorage)
		_, p := s.stateObjectsPending[a]
		_, d := s.stateObjectsDirty[a]
		fmt.Fprintf(&sb, " P=%v D=%v]", p, d)
	}
	set := func(name string, m map[common.InternalAddress]struct{}) {
		ks := make([]string, 0, len(m))
		for k := range m {
			ks = append(ks, fmt.Sprintf("%x", k[:2]))
		}
		sort.Strings(ks)
		fmt.Fprintf(&sb, "|%s:%s", name, strings.Join(ks, ","))
	}
	set("pending", s.stateObjectsPending)
	set("dirtyset", s.stateObjectsDirty)
	jd := make([]string, 0, len(s.journal.dirties))
	for k, n := range s.journal.dirties {
		jd = append(jd, fmt.Sprintf("%x:%d", k[:], n))
	}
	sort.Strings(jd)
	fmt.Fprintf(&sb, "|J:%d", len(s.journal.entries))
	for _, e := range s.journal.entries {
		sb.WriteString("," + verifC16Entry(e))
	}
	fmt.Fprintf(&sb, "|jd:%s|rev:", strings.Join(jd, ","))
	for _, r := range s.validRevisions {
		fmt.Fprintf(&sb, "%d,", r.journalIndex)
	}
	na := make([]string, 0, len(s.newAccountsAdded))
	for k := range s.newAccountsAdded {
		na = append(na, fmt.Sprintf("%x", k[:2]))
	}
	sort.Strings(na)
	fmt.Fprintf(&sb, "|new:%s|err=%v|refund=%d|root=%x", strings.Join(na, ","), s.dbErr != nil, s.refund, s.trie.Hash())
	return sb.String()
}

// VerifC16Live returns the addresses of all live (cached) account objects that are not deleted.
func VerifC16Live(s *StateDB) (out []common.InternalAddress) {
	for a, o := range s.stateObjects {
		if !o.deleted {
			out = append(out, a)
		}
	}
	sort.Slice(out, func(i, j int) bool { return out[i].Cmp(out[j]) < 0 })
	return out
}

// VerifC16LastRevision returns the id of the newest valid snapshot (ok=false if none).
func VerifC16LastRevision(s *StateDB) (id int, ok bool) {
	if len(s.validRevisions) == 0 {
		return 0, false
	}
	return s.validRevisions[len(s.validRevisions)-1].id, true
}

// VerifC16DbErr exposes the memoised error (what Commit would refuse with).
func VerifC16DbErr(s *StateDB) error { return s.dbErr }

// VerifC16TrieAccounts iterates the account trie as it stands (callers run IntermediateRoot or
// Commit first) and returns, per leaf, the hashed key and its preimage if the trie knows it (a
// copied SecureTrie drops the unflushed preimage cache of its origin, so nil is not an anomaly).
func VerifC16TrieAccounts(s *StateDB) (hashed []common.Hash, pre [][]byte) {
	it := trie.NewIterator(s.trie.NodeIterator(nil))
	for it.Next() {
		hashed = append(hashed, common.BytesToHash(it.Key))
		pre = append(pre, common.CopyBytes(s.trie.GetKey(it.Key)))
	}
	return hashed, pre
}

func verifC16Obj(o *stateObject) string {
	if o == nil {
		return "nil"
	}
	return fmt.Sprintf("%x/n%d/b%s/c%x/r%x/z%s/s%v/d%v/ds%d/ps%d", o.address[:], o.data.Nonce, o.data.Balance, o.data.CodeHash[:4], o.data.Root[:4], o.data.Size, o.suicided, o.deleted, len(o.dirtyStorage), len(o.pendingStorage))
}

// verifC16Entry renders a journal entry with the previous values it would restore.
func verifC16Entry(e journalEntry) string {
	switch ch := e.(type) {
	case createObjectChange:
		return fmt.Sprintf("create@%x", ch.account[:])
	case resetObjectChange:
		return fmt.Sprintf("reset(%s,%v)", verifC16Obj(ch.prev), ch.prevdestruct)
	case suicideChange:
		return fmt.Sprintf("suicide@%x(%v,%s)", ch.account[:], ch.prev, ch.prevbalance)
	case balanceChange:
		return fmt.Sprintf("bal@%x(%s)", ch.account[:], ch.prev)
	case nonceChange:
		return fmt.Sprintf("nonce@%x(%d)", ch.account[:], ch.prev)
	case storageChange:
		return fmt.Sprintf("slot@%x(%x=%x)", ch.account[:], ch.key[28:], ch.prevalue[28:])
	case codeChange:
		return fmt.Sprintf("code@%x(%x,%x)", ch.account[:], ch.prevcode, ch.prevhash)
	case sizeChange:
		return fmt.Sprintf("size@%x(%s)", ch.account[:], ch.prev)
	case refundChange:
		return fmt.Sprintf("refund(%d)", ch.prev)
	case touchChange:
		return fmt.Sprintf("touch@%x", ch.account[:])
	case transientStorageChange:
		return fmt.Sprintf("tslot@%x(%x=%x)", ch.account[:], ch.key[28:], ch.prevalue[28:])
	case accessListAddAccountChange:
		return fmt.Sprintf("al@%x", ch.address[:])
	case accessListAddSlotChange:
		return fmt.Sprintf("als@%x/%x", ch.address[:], ch.slot[28:])
	}
	return fmt.Sprintf("%T", e)
}
