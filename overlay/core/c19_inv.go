//go:build verif

package core

// C19 oracle: pure functions over the plain-data snapshot. Kept next to the access shim only
// because two binaries (vq and the -race vqrace) share it; nothing here touches the pool.
//
// The predicates are the clauses of the property statement, one function each:
//   (a) each account's pending list is nonce-contiguous from the account's state nonce
//   (b) ... and affordable from its balance (every pending transaction's cost <= balance: the
//       pool's own admission rule is per transaction, not cumulative)
//   (c) no transaction is both pending and queued
//   (d) the hash index, the price index and the per-account lists hold the same transactions
//   (e) a same-nonce replacement is accepted only with the configured price bump
//   (f) the configured size limits hold

import (
	"fmt"
	"math/big"
	"sort"
	"strings"
)

type VerifC19Viol struct {
	Key  string
	Desc string
}

func verifC19ListStr(l VerifC19List) string {
	if !l.Present {
		return "-"
	}
	var ids []string
	for _, t := range l.Txs {
		ids = append(ids, t.ID)
	}
	return "[" + strings.Join(ids, " ") + "]"
}

// Render is a human-readable one-line rendering of the pool content.
func (s *VerifC19Snap) Render() string {
	var sb strings.Builder
	fmt.Fprintf(&sb, "poolHead=%d chainHead=%d gasPrice=%d", s.PoolHead, s.ChainHead, s.GasPrice)
	for i, a := range s.Accts {
		fmt.Fprintf(&sb, " | %c: stateNonce=%d bal=%v pending=%s queue=%s pendingNonce=%d local=%v", 'A'+i, a.StateNonce, a.Balance,
			verifC19ListStr(a.Pending), verifC19ListStr(a.Queue), a.PendingNonce, a.Local)
	}
	fmt.Fprintf(&sb, " | all: local=%v remote=%v slots=%d | priced: urgent=%v floating=%v stales=%d | qi=%v", s.AllLocal, s.AllRemote, s.AllSlots,
		s.Urgent, s.Floating, s.Stales, s.Qi)
	if s.Sched != "" {
		fmt.Fprintf(&sb, " | %s", s.Sched)
	}
	return sb.String()
}

// Key is the canonical state key used for deduplication.
//
// Kept: which head the pool validates against and which head the chain is at; the price floor;
// per account: pending/queue content, the lists' cost/gas caps (they gate Filter), the nonce
// index when it disagrees with the items, the virtual pending nonce, local flag, the relative
// order of the two heartbeats (truncateQueue sorts by it); the hash index split into local and
// remote with its slot counter; the two price heaps as sorted multisets plus the stale counter;
// the Qi pool in LRU order; the outstanding/in-flight reorg requests (reset old>new, dirty set).
//
// Dropped, with reason: absolute time stamps (only their order is used, see heartbeat rank; the
// eviction event sets "old" explicitly); heap array layouts (Reheap fills them in Go map order,
// so every layout of the same multiset is reachable from the same state - transitions are
// treated as nondeterministic instead); flatten caches (derived; checked separately); the
// sender/fee LRUs, metrics, log counters, the queued tx-event sets and the broadcast set they
// feed (never read by pool decisions; senders only short-cuts signature recovery to the same
// address).
func (s *VerifC19Snap) Key() string {
	var sb strings.Builder
	fmt.Fprintf(&sb, "H%d/%d g%d", s.PoolHead, s.ChainHead, s.GasPrice)
	for i, a := range s.Accts {
		fmt.Fprintf(&sb, "|%c pn%d L%v P%s", 'A'+i, a.PendingNonce, a.Local, verifC19ListStr(a.Pending))
		if a.Pending.Present {
			fmt.Fprintf(&sb, "c%v/%d", a.Pending.Costcap, a.Pending.Gascap)
			if !verifC19IndexOK(a.Pending) {
				fmt.Fprintf(&sb, "i%v", a.Pending.Index)
			}
		}
		fmt.Fprintf(&sb, " Q%s", verifC19ListStr(a.Queue))
		if a.Queue.Present {
			fmt.Fprintf(&sb, "c%v/%d", a.Queue.Costcap, a.Queue.Gascap)
			if !verifC19IndexOK(a.Queue) {
				fmt.Fprintf(&sb, "i%v", a.Queue.Index)
			}
		}
		fmt.Fprintf(&sb, " b%v", a.HasBeat)
	}
	if s.Accts[0].HasBeat && s.Accts[1].HasBeat {
		fmt.Fprintf(&sb, "|A<B=%v", s.Accts[0].Beat.Before(s.Accts[1].Beat))
	}
	u := append([]string{}, s.Urgent...)
	f := append([]string{}, s.Floating...)
	sort.Strings(u)
	sort.Strings(f)
	fmt.Fprintf(&sb, "|all L%v R%v s%d|pr U%v F%v st%d|qi%v|%v|%s", s.AllLocal, s.AllRemote, s.AllSlots, u, f, s.Stales, s.Qi, s.Foreign, s.Sched)
	return sb.String()
}

func verifC19IndexOK(l VerifC19List) bool {
	if len(l.Index) != len(l.Txs) {
		return false
	}
	for i, t := range l.Txs {
		if l.Index[i] != t.Nonce {
			return false
		}
	}
	return true
}

// VerifC19CheckQuiescent evaluates clauses (a)(b)(c)(d)(f) on a quiescent snapshot. `site` names
// the section that produced the state and becomes part of the finding key.
func VerifC19CheckQuiescent(s *VerifC19Snap, site string) []VerifC19Viol {
	var out []VerifC19Viol
	add := func(key, format string, a ...any) {
		out = append(out, VerifC19Viol{key + "@" + site, fmt.Sprintf(format, a...) + "\n state: " + s.Render()})
	}
	inLists := map[string]int{}
	pendingTotal, queueTotal := 0, 0
	for i, a := range s.Accts {
		name := string(rune('A' + i))
		// (a) contiguous from the state nonce
		for j, t := range a.Pending.Txs {
			if t.Nonce != a.StateNonce+uint64(j) {
				add("pending-noncontiguous", "account %s: pending %s is not nonce-contiguous from the state nonce %d", name, verifC19ListStr(a.Pending), a.StateNonce)
				break
			}
		}
		// (b) affordable
		for _, t := range a.Pending.Txs {
			if t.Cost != nil && t.Cost.Cmp(a.Balance) > 0 {
				add("pending-unaffordable", "account %s: pending %s costs %v > balance %v", name, t.ID, t.Cost, a.Balance)
				break
			}
		}
		// (c) not both pending and queued
		for _, t := range a.Pending.Txs {
			for _, q := range a.Queue.Txs {
				if t.ID == q.ID {
					add("pending-and-queued", "account %s: %s is both pending and queued", name, t.ID)
				}
			}
		}
		// (d) per-account lists: the list's own views agree (items / nonce index / flatten cache)
		for _, lv := range []struct {
			n string
			l VerifC19List
		}{{"pending", a.Pending}, {"queue", a.Queue}} {
			if !lv.l.Present {
				continue
			}
			if !verifC19IndexOK(lv.l) {
				add("list-internal:"+lv.n+":index", "account %s: %s items %s but nonce index %v", name, lv.n, verifC19ListStr(lv.l), lv.l.Index)
			}
			if lv.l.Cache != nil {
				ok := len(lv.l.Cache) == len(lv.l.Txs)
				for k := 0; ok && k < len(lv.l.Txs); k++ {
					ok = lv.l.Cache[k] == lv.l.Txs[k].ID
				}
				if !ok {
					add("list-internal:"+lv.n+":cache", "account %s: %s items %s but flatten cache %v", name, lv.n, verifC19ListStr(lv.l), lv.l.Cache)
				}
			}
			for _, t := range lv.l.Txs {
				inLists[t.ID]++
				if strings.HasPrefix(t.ID, "misfiled:") || t.ID == "<nil>" {
					add("list-internal:"+lv.n+":items", "account %s: %s holds %s under nonce %d", name, lv.n, t.ID, t.Nonce)
				}
			}
		}
		pendingTotal += len(a.Pending.Txs)
		queueTotal += len(a.Queue.Txs)
	}
	if len(s.Foreign) > 0 {
		add("index-mismatch:foreign-account", "lists for accounts that never sent a transaction: %v", s.Foreign)
	}
	// (d) hash index vs lists
	inAll := map[string]int{}
	for _, id := range s.AllLocal {
		inAll[id]++
	}
	for _, id := range s.AllRemote {
		inAll[id]++
	}
	var onlyAll, onlyLists, dup []string
	for id, n := range inAll {
		if inLists[id] == 0 {
			onlyAll = append(onlyAll, id)
		}
		if n > 1 {
			dup = append(dup, id)
		}
	}
	for id, n := range inLists {
		if inAll[id] == 0 {
			onlyLists = append(onlyLists, id)
		}
		if n > 1 {
			dup = append(dup, id)
		}
	}
	sort.Strings(onlyAll)
	sort.Strings(onlyLists)
	sort.Strings(dup)
	if len(onlyAll) > 0 {
		add("index-mismatch:in-hash-index-only", "in the hash index but in no account list: %v", onlyAll)
	}
	if len(onlyLists) > 0 {
		add("index-mismatch:in-lists-only", "in an account list but not in the hash index: %v", onlyLists)
	}
	if len(dup) > 0 {
		add("index-mismatch:duplicate", "held twice: %v", dup)
	}
	if s.AllSlots != len(s.AllLocal)+len(s.AllRemote) {
		add("index-mismatch:slots", "hash index counts %d slots for %d single-slot transactions", s.AllSlots, len(s.AllLocal)+len(s.AllRemote))
	}
	// (d) price index: it tracks the remote transactions; entries are deleted lazily, so
	// "holds" means: every remote transaction has a heap entry, and entries minus the ones
	// the index itself accounts as stale equal the remote transactions.
	heap := map[string]int{}
	for _, id := range s.Urgent {
		heap[id]++
	}
	for _, id := range s.Floating {
		heap[id]++
	}
	var missing []string
	for _, id := range s.AllRemote {
		if heap[id] == 0 {
			missing = append(missing, id)
		}
	}
	if len(missing) > 0 {
		add("index-mismatch:priced-missing", "remote transactions without a price-index entry: %v", missing)
	}
	if n := len(s.Urgent) + len(s.Floating) - s.Stales; n != len(s.AllRemote) {
		add("index-mismatch:priced-count", "price index holds %d entries of which it counts %d stale = %d live, hash index has %d remote transactions",
			len(s.Urgent)+len(s.Floating), s.Stales, n, len(s.AllRemote))
	}
	// (f) limits
	cfg := s.Cfg
	if uint64(pendingTotal) > cfg.GlobalSlots {
		for i, a := range s.Accts {
			if uint64(len(a.Pending.Txs)) > cfg.AccountSlots {
				add("limit:global-slots", "%d pending > GlobalSlots %d while account %c holds %d > AccountSlots %d", pendingTotal, cfg.GlobalSlots, 'A'+i, len(a.Pending.Txs), cfg.AccountSlots)
				break
			}
		}
	}
	for i, a := range s.Accts {
		if uint64(len(a.Queue.Txs)) > cfg.AccountQueue {
			add("limit:account-queue", "account %c queues %d > AccountQueue %d", 'A'+i, len(a.Queue.Txs), cfg.AccountQueue)
		}
	}
	if uint64(queueTotal) > cfg.GlobalQueue {
		add("limit:global-queue", "%d queued > GlobalQueue %d", queueTotal, cfg.GlobalQueue)
	}
	if uint64(s.AllSlots) > cfg.GlobalSlots+cfg.GlobalQueue {
		add("limit:pool-size", "%d slots > GlobalSlots+GlobalQueue %d", s.AllSlots, cfg.GlobalSlots+cfg.GlobalQueue)
	}
	if uint64(len(s.Qi)) > cfg.QiPoolSize {
		add("limit:qi-pool", "%d Qi transactions > QiPoolSize %d", len(s.Qi), cfg.QiPoolSize)
	}
	return out
}

// VerifC19NonceDrift reports (not as a violation: the statement does not mention it) accounts whose
// virtual pending nonce is not "last pending + 1" / the state nonce.
func VerifC19NonceDrift(s *VerifC19Snap) bool {
	for _, a := range s.Accts {
		want := a.StateNonce
		if n := len(a.Pending.Txs); n > 0 {
			want = a.Pending.Txs[n-1].Nonce + 1
		}
		if a.PendingNonce != want {
			return true
		}
	}
	return false
}

func verifC19Slot(s *VerifC19Snap, acct int, nonce uint64) (VerifC19Tx, string, bool) {
	for _, t := range s.Accts[acct].Pending.Txs {
		if t.Nonce == nonce {
			return t, "pending", true
		}
	}
	for _, t := range s.Accts[acct].Queue.Txs {
		if t.Nonce == nonce {
			return t, "queue", true
		}
	}
	return VerifC19Tx{}, "", false
}

func verifC19BumpOK(oldPrice, newPrice int64, bump uint64) bool {
	// new >= old * (100+bump)/100, exact
	l := new(big.Int).Mul(big.NewInt(newPrice), big.NewInt(100))
	r := new(big.Int).Mul(big.NewInt(oldPrice), big.NewInt(100+int64(bump)))
	return l.Cmp(r) >= 0
}

// VerifC19CheckReplace evaluates clause (e) for an accepted add of universe transaction id.
func VerifC19CheckReplace(before *VerifC19Snap, id string) []VerifC19Viol {
	acct, nonce, price, ok := VerifC19ParseID(id)
	if !ok {
		return nil
	}
	old, where, found := verifC19Slot(before, acct, nonce)
	if !found || old.ID == id {
		return nil
	}
	if !verifC19BumpOK(old.Price, price, before.Cfg.PriceBump) {
		return []VerifC19Viol{{"replace-without-bump:" + where, fmt.Sprintf("%s (price %d) was accepted in place of %s %s (price %d) with PriceBump %d%%\n state before: %s",
			id, price, where, old.ID, old.Price, before.Cfg.PriceBump, before.Render())}}
	}
	return nil
}

// VerifC19CheckReinject evaluates clause (e) across a reorg section: reset re-adds the dropped
// block's transactions through the normal add path BEFORE anything is demoted, so a slot whose
// occupant changed from X to Y was a replacement.
func VerifC19CheckReinject(before, after *VerifC19Snap) []VerifC19Viol {
	var out []VerifC19Viol
	for acct := 0; acct < 2; acct++ {
		for nonce := uint64(0); nonce < 10; nonce++ {
			x, _, okx := verifC19Slot(before, acct, nonce)
			y, _, oky := verifC19Slot(after, acct, nonce)
			if okx && oky && x.ID != y.ID && !verifC19BumpOK(x.Price, y.Price, before.Cfg.PriceBump) {
				out = append(out, VerifC19Viol{"replace-without-bump:reinject", fmt.Sprintf("reorg put %s (price %d) in the slot of %s (price %d) with PriceBump %d%%\n state before: %s\n state after: %s",
					y.ID, y.Price, x.ID, x.Price, before.Cfg.PriceBump, before.Render(), after.Render())})
			}
		}
	}
	return out
}
