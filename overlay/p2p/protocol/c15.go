//go:build verif

package protocol

// C15 harness support: feed one raw stream frame to the production message handler.

import (
	"time"

	"github.com/libp2p/go-libp2p/core/network"
	"github.com/libp2p/go-libp2p/core/peer"
	libp2pprotocol "github.com/libp2p/go-libp2p/core/protocol"
)

type verifC15Conn struct {
	network.Conn
	id peer.ID
}

func (c *verifC15Conn) RemotePeer() peer.ID { return c.id }

type VerifC15Stream struct {
	network.Stream
	conn    *verifC15Conn
	Written int
	Frames  int
	Closed  bool
}

func (s *VerifC15Stream) Conn() network.Conn               { return s.conn }
func (s *VerifC15Stream) Close() error                     { s.Closed = true; return nil }
func (s *VerifC15Stream) Reset() error                     { s.Closed = true; return nil }
func (s *VerifC15Stream) SetWriteDeadline(time.Time) error { return nil }
func (s *VerifC15Stream) SetReadDeadline(time.Time) error  { return nil }
func (s *VerifC15Stream) SetDeadline(time.Time) error      { return nil }
func (s *VerifC15Stream) Protocol() libp2pprotocol.ID      { return ProtocolVersion }
func (s *VerifC15Stream) Write(b []byte) (int, error) {
	s.Written += len(b)
	s.Frames++
	return len(b), nil
}
func (s *VerifC15Stream) Read(b []byte) (int, error) { return 0, network.ErrReset }
func (s *VerifC15Stream) ID() string                 { return "c15" }

func VerifC15NewStream(peerName string) *VerifC15Stream {
	return &VerifC15Stream{conn: &verifC15Conn{id: peer.ID(peerName)}}
}

// VerifC15HandleMessage runs handleMessage (including its recover wrapper) on one frame.
func VerifC15HandleMessage(data []byte, s *VerifC15Stream, node QuaiP2PNode) {
	handleMessage(data, s, node)
}

// VerifC15ResetRateTrackers forgets the per-peer request rate state (the harness uses a fresh peer
// id per frame so that the rate limiter never short-circuits the handler).
func VerifC15ResetRateTrackers() {
	requestRateMu.Lock()
	inRateTrackers = nil
	outRateTrackers = nil
	requestRateMu.Unlock()
}
