//go:build verif

package pubsubManager

// C15 harness support: run the production gossip validator without a libp2p host.

import (
	"context"

	pubsub "github.com/libp2p/go-libp2p-pubsub"
	pubsubpb "github.com/libp2p/go-libp2p-pubsub/pb"
	"github.com/libp2p/go-libp2p/core/peer"

	"github.com/dominant-strategies/go-quai/common"
	"github.com/dominant-strategies/go-quai/quai"
)

type VerifC15Gossip struct {
	g   *PubsubManager
	val func(ctx context.Context, id peer.ID, msg *pubsub.Message) pubsub.ValidationResult
	gen common.Hash
}

func VerifC15NewGossip(consensus quai.ConsensusAPI, genesis common.Hash) *VerifC15Gossip {
	g := &PubsubManager{consensus: consensus, genesis: genesis}
	return &VerifC15Gossip{g: g, val: g.ValidatorFunc(), gen: genesis}
}

// Topic returns the topic string this node would be subscribed to for the data type.
func (v *VerifC15Gossip) Topic(loc common.Location, datatype interface{}) (string, error) {
	t, err := NewTopic(v.gen, loc, datatype)
	if err != nil {
		return "", err
	}
	return t.String(), nil
}

// Validate runs the registered topic validator on one raw gossip payload.
func (v *VerifC15Gossip) Validate(topic string, data []byte) pubsub.ValidationResult {
	msg := &pubsub.Message{Message: &pubsubpb.Message{Data: data, Topic: &topic}, ReceivedFrom: peer.ID("c15-peer")}
	return v.val(context.Background(), peer.ID("c15-peer"), msg)
}
