//go:build verif

package node

// C15 harness support: a P2PNode with only the members the stream request handler and the
// broadcast delivery path touch (consensus adapter, request manager, bandwidth counter, caches).

import (
	"context"

	libp2pmetrics "github.com/libp2p/go-libp2p/core/metrics"
	"github.com/libp2p/go-libp2p/core/peer"

	"github.com/dominant-strategies/go-quai/common"
	"github.com/dominant-strategies/go-quai/p2p/node/requestManager"
	"github.com/dominant-strategies/go-quai/quai"
)

func VerifC15NewNode(consensus quai.ConsensusAPI) *P2PNode {
	ctx, cancel := context.WithCancel(context.Background())
	return &P2PNode{
		consensus:        consensus,
		requestManager:   requestManager.NewManager(),
		bandwidthCounter: libp2pmetrics.NewBandwidthCounter(),
		ctx:              ctx,
		cancel:           cancel,
		quitCh:           make(chan struct{}),
	}
}

// VerifC15Deliver is what the subscription worker does with a message that passed validation.
func (p *P2PNode) VerifC15Deliver(topic string, data interface{}, loc common.Location) {
	if p.consensus != nil {
		p.consensus.OnNewBroadcast(peer.ID("c15-peer"), "id", topic, data, loc)
	}
}
