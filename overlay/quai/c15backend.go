//go:build verif

package quai

// C15 harness support: the production quaiapi.Backend (QuaiAPIBackend) around a harness-built
// core.Core, plus a no-op NetworkingAPI, so that the gossip validator, the request handler and the
// RPC submission methods run against the same objects as in a full node.

import (
	lru "github.com/hashicorp/golang-lru/v2"
	"github.com/libp2p/go-libp2p/core"

	"github.com/dominant-strategies/go-quai/common"
	chain "github.com/dominant-strategies/go-quai/core"
	"github.com/dominant-strategies/go-quai/core/types"
	"github.com/dominant-strategies/go-quai/internal/quaiapi"
	"github.com/dominant-strategies/go-quai/log"
	"github.com/dominant-strategies/go-quai/quai/quaiconfig"
)

type VerifC15NoNet struct{ Broadcasts int }

func (*VerifC15NoNet) Start() error                                   { return nil }
func (*VerifC15NoNet) Stop() error                                    { return nil }
func (*VerifC15NoNet) Subscribe(common.Location, interface{}) error   { return nil }
func (*VerifC15NoNet) Unsubscribe(common.Location, interface{}) error { return nil }
func (n *VerifC15NoNet) Broadcast(common.Location, interface{}) error {
	n.Broadcasts++
	return nil
}
func (*VerifC15NoNet) SetConsensusBackend(ConsensusAPI) {}
func (*VerifC15NoNet) Request(location common.Location, requestData interface{}, responseDataType interface{}) chan interface{} {
	ch := make(chan interface{}, 1)
	close(ch)
	return ch
}
func (*VerifC15NoNet) PeerCount() uint                                      { return 0 }
func (*VerifC15NoNet) PeerCountByDirection() (uint, uint)                   { return 0, 0 }
func (*VerifC15NoNet) AdjustPeerQuality(core.PeerID, string, func(int) int) {}
func (*VerifC15NoNet) ProtectPeer(core.PeerID)                              {}
func (*VerifC15NoNet) UnprotectPeer(core.PeerID)                            {}
func (*VerifC15NoNet) BanPeer(core.PeerID)                                  {}

// VerifC15APIBackend wraps c in the production API backend.
func VerifC15APIBackend(c *chain.Core, logger *log.Logger, net NetworkingAPI) quaiapi.Backend {
	cfg := quaiconfig.Defaults
	q := &Quai{core: c, config: &cfg, logger: logger, p2p: net, rpcVersion: "v2"}
	cache, _ := lru.New[common.Hash, types.WorkShareValidity](1024)
	be := &QuaiAPIBackend{quai: q, uncleWorkShareClassificationCache: cache}
	q.APIBackend = be
	return be
}

// VerifC15Consensus returns the production consensus-side adapter with one zone backend installed.
func VerifC15Consensus(be quaiapi.Backend, loc common.Location, net NetworkingAPI) *QuaiBackend {
	qbe, _ := NewQuaiBackend()
	qbe.SetP2PApiBackend(net)
	b := be
	qbe.SetApiBackend(&b, loc)
	return qbe
}
