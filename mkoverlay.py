#!/usr/bin/env python3
"""Generate /verif/.build/overlay.json: maps harness sources INTO the repository's module
without writing to /repo.  overlay/<pkg>/<f>.go -> /repo/<pkg>/zz_verif_<f>.go ;
shim/<p>/<f>.go -> /repo/verifshim/<p>/<f>.go ; cmd/<c>/<f>.go -> /repo/verifcmd/<c>/<f>.go.
Optional extra JSON files (argv[2:]) {"Replace": {...}} are merged (mutant / sync-rewrite overlays)."""
import json, os, sys
V = os.path.dirname(os.path.abspath(__file__))
R = os.environ.get("VERIF_REPO", "/repo")
out = sys.argv[1] if len(sys.argv) > 1 else os.path.join(V, ".build", "overlay.json")
rep = {}
def walk(src, dstroot, prefix=""):
    for d, _, fs in os.walk(os.path.join(V, src)):
        rel = os.path.relpath(d, os.path.join(V, src))
        for f in sorted(fs):
            if not (f.endswith(".go") or f.endswith(".s")):
                continue
            name = f if (not prefix or f.startswith(prefix)) else prefix + f
            rep[os.path.normpath(os.path.join(R, dstroot, rel, name))] = os.path.join(d, f)
walk("overlay", "", "zz_verif_")
walk("shim", "verifshim")
walk("cmd", "verifcmd")
for extra in sys.argv[2:]:
    with open(extra) as fh:
        rep.update(json.load(fh)["Replace"])
os.makedirs(os.path.dirname(out), exist_ok=True)
with open(out + ".tmp", "w") as fh:
    json.dump({"Replace": rep}, fh, indent=1)
os.replace(out + ".tmp", out)
