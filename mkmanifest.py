#!/usr/bin/env python3
"""Regenerates MANIFEST.json from the table below (keeps it schema-valid at all times)."""
import json, os
V = os.path.dirname(os.path.abspath(__file__))
ALL = ["C%02d" % i for i in range(1, 21)]

CHECKS = {
 "C17": dict(
   technique="explicit-state BFS over DB/batch operation histories, 5 real engine configurations stepped in lock-step against a Go map reference model; dedup on canonical model state",
   text="Every operation history up to the stated depth over 3 colliding keys x 3 values (incl. empty) x batch/pending/reset/replay operations is executed on the real leveldb, pebble, memorydb and table-wrapper code and every observable (Get/Has/25 iterator ranges/GetPending/ValueSize sanity) is compared with the model after every transition: a coverage statement over all short histories, which is where interface-level divergences between engines live.",
   note="Trusts: engine internals below the ethdb interface (compaction, WAL); ValueSize units are engine-defined; double Write without Reset is outside the contract; keys limited to {a,ab,b}; depth 4 (quick) / 6 (thorough).",
   design="2/C17"),
 "C07": dict(
   technique="sequence enumeration over mempool contents x chain prefixes on a real 3-level node (worker -> wire -> Slice.Append/SetCurrentHeader), plus exhaustive single-component mutation of every assembled block with full DB diff",
   text="Every arrival sequence of <=2 (thorough 3) distinct transactions from a 6-member menu (transfers, nonce-gapped, differently priced, contract creation, Quai->Qi conversion, Qi spend) on top of chain prefixes that already carry inbound ETXs and Qi outputs is assembled by the node's own worker and must append with header commitments equal to the stored state; each of ~35 single-component mutations (13 declared-result fields; 11 body edits with stale and with recomputed roots) of each such block is re-sealed and must be rejected with no head movement and an empty database diff outside records keyed by the rejected block's hash.",
   note="Trusts: injected PoW engine (hash chosen by harness), scaled protocol constants (listed in evidence), wall-clock-free timestamps (parent+1). Not covered: mutations of more than one component; region/prime-order mutated blocks; KawPow-era rules.",
   design="2/C07"),
 "C10": dict(
   technique="exhaustive enumeration of ordered branch pairs on real nodes; differential oracle against a fresh node that only followed the winning branch, after each of 3-4 head switches",
   text="All ordered pairs of distinct applicable branches of <=2 (thorough 3) zone blocks over a 6-symbol block-content alphabet (conflicting spends of a pre-fork output, spend of another output, spend of a branch-created / about-to-be-trimmed output, Quai transfer, empty) from a common 14-block prefix containing region and prime blocks, a conversion and a trimmable output whose trim height falls inside the branches. The reorganising node must equal, after every switch (A->B->A->B), the canonical projection (flat UTXO+lockup ledger, address index as sets, number->hash map, head pointers, stored multiset/size) of a node that only saw the winner, and its head must satisfy the commitment oracle.",
   note="Trusts: scaled trim/lock depths; zone-order branch blocks only (region/prime reorganisations are not driven); lockup-contract activity on branches is exercised by C13, not here. Address index compared as sets of outpoints per address.",
   design="2/C10"),
 "C06": dict(
   technique="exhaustive enumeration of block-content words on real nodes with repeated/cold/cross-backend execution and a full-scan commitment oracle; stateless schedule exploration (iterative preemption bounding, then unbounded) of the real trimming goroutines under a controlled scheduler",
   text="For every word of block contents up to length 2 (thorough 3) after a 14-block prefix (conversion, inbound ETXs, Qi outputs, trimmable output) every block is processed by the real StateProcessor three times warm and once on a cold replica started from a copy of the databases before it is appended (all outputs equal), after acceptance the MuHash is recomputed from a scan of the ut/cl prefixes and compared with header root, stored multiset and stored size and the state is reopened at the header roots, and the whole history is replayed on leveldb- and pebble-backed zone nodes (same verdicts and canonical projection). (trim-schedules) In a second binary whose copy of core/headerchain_validation.go imports a cooperative-scheduler shim instead of sync (only the import and the map range over TrimDepths are rewritten, from the current working tree), ALL interleavings of the real Process call on a block that trims six outputs with three concurrent goroutines are executed - preemption bounds 0,1,2 under two spawn orders, then unbounded (about 4 000 schedules) - and multiset hash, set size, all other outputs and the set of deleted keys are identical in every schedule; no schedule deadlocks.",
   note="Trusts: scaled constants; the scheduler sees Lock/Unlock/Done/Wait of the rewritten file only (unsynchronised accesses between them are the business of the race detector, not of this explorer); idle trimming goroutines are removed from the scenario by shrinking TrimDepths to the three active denominations. Known finding: spend-at-trim-height double removal (known_findings.json).",
   design="2/C06"),
 "C11": dict(
   technique="crash-prefix enumeration: every prefix of the global write log (puts, deletes, atomic batches on prime/region/zone DBs) of a multi-level history with a reorg is materialised, restarted with the real NewSlice and continued; differential oracle against the uncrashed node",
   text="A node on write-logging databases follows a history of foreign blocks (zone block with Qi spend/transfers/contract creation, region-order block, prime-order block, two more zone blocks, three side-branch inserts and a depth-2 reorganisation). For EVERY prefix of the ~120-entry global write log the three databases are rebuilt, the real node is restarted on them and must open without error/panic, report a zone head whose header commitments equal a full scan of the stored ledger, complete the rest of the history starting with the interrupted block, and end with exactly the canonical projection of the node that never crashed.",
   note="Trusts: process-crash model (write order preserved, a committed batch is atomic); engine internals, torn writes inside a batch and power-loss reordering are not explored. The dom's production retry path for missing pending ETXs is modelled by retrying the insert (<=16 times).",
   design="2/C11"),
 "C01": dict(
   technique="exhaustive sequence enumeration of adversarial Qi transaction templates through the real ProcessQiTx on 4 storage backends in lock-step with a Go-map reference ledger; plus all mempool pairs through the real worker on a 3-level node",
   text="Every sequence of <=2 (thorough 3) transactions from 19 adversarial templates (same outpoint twice in one tx, same outpoint in two txs of the block, spend of an output created earlier in the block, locked output, foreign owner, missing output, inflating outputs, wrong key, signature for another chain id, sender-cache path, MuSig2 two-owner spend, cross-zone ETX, conversion, address reuse) is executed as the Qi part of one block on leveldb, pebble, memorydb and the table wrapper: whenever the reference ledger demands refusal the implementation refuses, accepted transactions conserve value (in = local outputs + sent away + fee) with matching supply deltas, the UTXO prefix after batch.Write equals the reference ledger, and verdict vectors are identical across backends. All pairs of conflicting/dependent spends offered to the real mempool yield worker blocks that the node accepts, that never name an outpoint twice and whose commitments equal the stored ledger.",
   note="Trusts: 3 keys, denominations from a small menu, block context (base fee, exchange rate, eligibility) of one real zone node in regime R1; block-level 'evil miner' bodies with recomputed state roots are not constructed (C07 covers body mutations, C06 cross-backend block histories).",
   design="2/C01"),
 "C09": dict(
   technique="tree enumeration of all block-order words on a real 3-level node; at every node exhaustive single-field deviation of the child header offered to the real VerifyHeader of every chain it belongs to; entropy and order-stability oracles",
   text="At each of the 120 (thorough 1092) nodes of the tree of block-order words over {zone, region, prime} up to depth 4 (6), the child assembled by the node's worker is accepted by VerifyHeader of every chain it belongs to, each of 30 single-field deviations (number, time before parent / far future, difficulty, prime-terminus hash and number, lock, data, coinbase scope, location, share fields before the fork, per-context parent entropy / delta entropy / uncled delta entropy, efficiency score, threshold count, expansion number, eligible slices, prime/region state roots, miner difficulty, gas and state limits/usage, base fee, extra size) that survives the wire encoding is rejected by at least one of those chains, accumulated entropy strictly increases in every chain, and CalcOrder is identical on repeated calls, for the round-tripped object and on a cold replica.",
   note="Trusts: injected PoW engine (deviations keep a valid seal so that the header rules decide), fork regime before KawPow (post-fork share-difficulty derivations are not driven), scaled constants. A deviation is counted as accepted only if every chain of a full node accepts it.",
   design="2/C09"),
 "C04": dict(
   technique="explicit-state BFS of the real ETX queue in lock-step with a FIFO model; exhaustive block-order words on a real prime/region/zone node under an ETX id monitor; exhaustive single edits of the inbound ETX list of own blocks",
   text="(queue) every push/pop/commit+reopen/copy history to depth 5 (thorough 7) of the real StateDB queue, started from index cells 0, 254 and 65534 so that keys cross the 1->2->3 byte boundaries, agrees with a FIFO list on every pop, on indices and on every readable element, and equal queue contents give equal ETX roots. (routing) for every word of length <=4 (6) over {zone, region, prime block, inject conversion} after a warm-up and followed by a draining suffix, a monitor over the canonical zone chain demands: executed ETX ids are a subset of emitted ones, none twice, only after the coincident block, payload unchanged except conversion repricing, execution order is exactly the concatenation of the inbound lists handed down by the dominant chain, nothing handed down twice, and everything emitted before the drain is delivered and executed. (inclusion) on own blocks carrying 1-4 inbound ETXs every single edit (swap, duplicate, drop, unknown, altered value, omit all) is rejected.",
   note="Trusts: a single zone (expansion 0), so every ETX (coinbase, conversion) travels zone->region->prime->region->zone and no cross-zone destination exists; reorganisations during routing are not driven; scaled constants.",
   design="2/C04"),
 "C13": dict(
   technique="exhaustive assignment of miner kinds (lock bytes, Qi/Quai, work shares) to blocks of a real 3-level chain; temporal monitor over the whole history (formula recomputation, per-height balance deltas, output scan, duplicate-share offers)",
   text="All 125 (thorough 625) assignments of {Quai lock byte 0/1/2, Qi, Quai + work share} to 3 (4) consecutive blocks of a 27-block prime/region/zone history, each crossed with an attempt to list the included share again 1..4 blocks later. Per block the coinbase ETXs emitted are recomputed from chain data (rewarded block three back, its shares, entropy weights, exchange rate of the prime terminus) and must match in number, beneficiary, data and amount; every executed Quai coinbase must show up as exactly one balance increase of the dedicated miner account at exactly execution height + lock depth with exactly the lockup-adjusted amount (minus the account-creation fee on first credit) and nowhere else; every executed Qi coinbase must have produced outputs owned by the miner, locked until exactly that height and worth exactly the adjusted amount; a block listing an already included share is rejected.",
   note="Trusts: scaled constants incl. BlocksPerMonth=2 (so that lock bytes are legal), pre-KawPow reward rules (entropy-weighted split), histories without user fees. Not covered: contract-held lockups (accumulation/claim through the lockup precompile), reorganisations across unlock heights, per-algorithm share rewards after the fork.",
   design="2/C13"),
 "C03": dict(
   technique="bounded exhaustive mutation enumeration: every single-field protobuf mutation, wire bit flip and prefix of signed transactions; full boundary product of signature values over three ingest paths; all call sequences on the sender cache; all key-to-input assignments through the real ProcessQiTx / pool validators",
   text="135 Quai baselines (3 keys x 5 templates x 3 chain ids x 3 locations) x 174 single-field mutations of the signed protobuf, every wire bit flip and prefix, verified under every chain id and location: a mutated transaction yields an error or another sender, never the original; the V x R x S boundary product (zero, N-1, N, half-N+-1, high-S twin) is rejected on the protobuf, RLP and in-memory paths; every Sender/Hash call sequence of depth 2 (3) on one object never returns a sender cached for another chain id; for Qi every assignment of keys to owners, pubkey fields and ordered (MuSig2) signing lists x (presented tx, signed tx) pairs through the real ProcessQiTx(checkSig=true) and pool validators is accepted only when exactly the owners signed exactly this transaction; wire mutations with compressed, uncompressed and hybrid public keys; pool-validates-A-then-block-processes-B histories for the hash-keyed sender cache.",
   note="Trusts: hardness of ECDSA/Schnorr; finite menus; the hash-cache part models only the 3-line 'skip signature check on a hash hit' lookup of Process, the verdicts come from the real code. Built by a helper agent, reviewed and integrated (reports/C03.md).",
   design="2/C03"),
 "C16": dict(
   technique="exhaustive enumeration of the first-byte x ledger-bit space over every address constructor/decoder and node location against a reference predicate; BFS over StateDB/EVM mutators; exhaustive output-class grid through the real ProcessQiTx",
   text="(classify) 256 first bytes x 4 ledger bytes x 3 tails through every constructor and decoder (bytes of length 0-33, [20]byte, hex, big.Int, proto, RLP, text, JSON, mixed-case, Scan, transaction address fields, pubkey / CREATE / CREATE2 derivation, GrindContract) at 9 (thorough: all) node locations: zone, ledger and internal/external verdicts must agree with the reference rule applied to the 20 bytes the object holds and with each other. (state) BFS over 127 StateDB / evm.Call / Create / Create2 / contract operations with 8 address classes incl. forged Address objects: live objects and the committed account trie only ever hold in-zone Quai accounts, creation returns an in-zone Quai address or an error. (qitx) the real ProcessQiTx on signed wire transactions over output class x address length x data kind x fork regime x eligibility: every stored UTXO has a 20-byte in-zone Qi owner.",
   note="21 known findings (one root cause: BytesToAddress classifies the uncropped input; decoders without a location parameter; the pre-fork Qi-wrapping rule) are listed in known_findings.json. Not covered: UTXO creation inside Process / worker (C01, C13 drive those). Built by a helper agent, reviewed and integrated (reports/C16.md).",
   design="2/C16"),
 "C18": dict(
   technique="exhaustive operation-history enumeration on the real Trie / SecureTrie with rebuild-from-content oracle; exhaustive single-bit proof corruption; exhaustive key-subset and list-length sweeps for StackTrie / DeriveSha",
   text="Every operation history of length <=4 (thorough 5: 37 M) over update / update-empty / delete / hash / commit+reload / flush+reload / reference-dereference / copy / fork on colliding raw keys ('', a, ab, abc, b) and on secure-trie preimages whose hashes share 1-3 nibbles, with 2/3/33-byte values: every Get equals the map model, the root equals a trie rebuilt from the content in sorted and in reverse order and the StackTrie, retained copies are unchanged; Prove/VerifyProof yields the model value or absence for every key; every single-bit flip of every proof node (2.3 M / 5.4 M corruptions) is rejected; all subsets of 10 (13) two-byte keys agree between Trie and StackTrie; DeriveSha(StackTrie) equals DeriveSha(Trie) for list lengths 0..130 (300) x 6 item sizes.",
   note="Trusts: keccak; VerifyRangeProof and depth-6 histories are not covered; proofs are modelled as the list of blobs re-keyed by the verifier (what core/state.proofList ships). Built by a helper agent, reviewed and integrated (reports/C18.md).",
   design="2/C18"),
 "C20": dict(
   technique="exhaustive boundary grid over the conversion helpers; exhaustive sets of conversions injected before a prime block on a real 3-level node with a per-id monitor from origin to outcome",
   text="(algebra) 58 boundary amounts (1, every denomination +-1, minimum conversion +-1, powers of ten, 2^64, 2^128) x 5 exchange rates x 4 difficulties x both sides of the reward fork: QiToQuai(QuaiToQi(x)) <= x and conversely, the cubic discount stays within [0, value] for every (value, mean) pair, the denomination split never exceeds the value and loses nothing above the smallest denomination. (pipeline) every single conversion (thorough: every ordered pair) from a 24-member menu (direction x {minimum, 3 000, 200 000 Quai | spend of a 1 Qi / 0.1 Qi output} x slippage {default, 0.3%, 50%} x destination gas {too small to mint everything, ample}) plus pairs of extreme members is injected before a prime block; for every conversion id exactly one outcome is observed; a converted credit is at most what the exchange rate recorded around that prime block implies and at least the 10% floor, minted Qi never exceeds the repriced value, the Quai recipient never gains more than the repriced sum, a reverted conversion carries exactly the original amount and is refunded on the origin ledger.",
   note="Trusts: scaled constants (lock period 3, controller from prime block 1); flat exchange-rate trajectory (rising/falling trajectories are not steered); Qi->Quai conversions below 1 Qi only. Known finding: reverted Qi->Quai conversions are refunded without the denominations below the trim limit.",
   design="2/C20"),
 "C14": dict(
   technique="deviation-bounded exhaustive enumeration: baseline objects of 18 types x all <=2 (thorough 3) field deviations through every encode/decode path, with fixpoint, hash-identity and whole-set collision oracles",
   text="For the three transaction kinds, body header, pre-fork and KawPow work-object headers with AuxPoW, work objects in 17 view/path combinations, pending-ETX bundles and rollups, pending header, termini, receipts, UTXO entries, AuxTemplate, p2p requests/responses and hash lists, a baseline plus every combination of <=2 (3) deviations over per-field menus {absent, zero/empty, typical, maximum width, each location} is pushed through protobuf, RLP, JSON-RPC and generic JSON, every rawdb Write*/Read* pair, p2p envelopes and gossip encodings: encoding is deterministic, decode(encode(x)) has equal content and hash and re-encodes byte-identically, decode(encode(y)) == y for everything a decoder produced, and across the whole enumerated set equal hashes imply equal content (per hash domain).",
   note="42 known findings in 14 root causes (RLP of Quai transactions with nil work fields, Qi work fields dropped by RLP/JSON, generic MarshalJSON of Header/Termini/WorkObjectHeader, receipt status Locked and dropped fields in consensus/storage RLP, KawPow header hash not covering nonce/mixHash, gencodec nil-slice rejections) are listed in known_findings.json; all protobuf wire/DB paths are clean. Built by a helper agent, reviewed and integrated (reports/C14.md).",
   design="2/C14"),
 "C02": dict(
   technique="exhaustive program enumeration: every sequence of <=2 (thorough 3) bytecode fragments from a 37-member menu x callee codes x messages x gas limits x fork regimes through the real ApplyMessage/applyTransaction, conservation equation checked on a full balance dump",
   text="Contract A is every sequence of <=2 (3) fragments from a menu of 37 (CALL/CALLCODE/DELEGATECALL/STATICCALL to 8 target classes with value 0/1/balance+1 and gas 0/2300/all, CREATE/CREATE2 with 4 init codes, SELFDESTRUCT to 4 beneficiaries, ETX, CONVERT, SSTORE, REVERT, INVALID, STOP), crossed with 7 callee codes, 5 message kinds (call with/without value, create, inbound ETX, self-destruct transaction, kQuai-setter), 3 gas limits and 3 fork regimes, plus 2 136 special messages, executed by the real EVM on a real StateDB: sum of balances after = before - gas charge - value and prepaid fee of emitted ETXs + inbound value + state-rent refunds, no negative balance, gas charge within [used x price, limit x price], a failed transaction leaves every balance but the payer's unchanged.",
   note="Known findings (5): two pre-fork-only value creations (legacy rules kept for replay), two value destructions caused by the opETX defects of C05, self-destruct-to-self burning the balance (inherited EVM semantics). Trusts: value domain {0,1,balance+-1,2^256-1}, depth-3 nesting. Built by a helper agent, reviewed and integrated (reports/C02_C05.md).",
   design="2/C02"),
 "C05": dict(
   technique="exhaustive argument grids for the ETX / CONVERT opcodes, out-of-scope calls and the lockup precompile on the real interpreter (stack height observed through a tracer), plus multi-frame programs through the real applyTransaction",
   text="Every combination of destination class x value {0,1,balance,balance+1,2^256-1} x ETX gas {0,20999,21000,2^64-1,2^64} x tip/fee {0,1,2^255} x access-list blob {empty, valid, malformed, huge offset} x balance x available gas x outbound-cache fill {0,2,65535,65536} x 3 fork regimes for the ETX and CONVERT opcodes, evm.Call to out-of-scope addresses, UnwrapQi and ClaimCoinbaseLockup: success => debit == value + prepaid fee and exactly one new ETX at the next index; failure => no debit, no ETX and a zero status word at CALL stack height. Multi-frame programs through applyTransaction: receipt.OutboundEtxs equals the operations that succeeded in non-reverted frames, in execution order.",
   note="Known findings (9): opETX keeps the debit on three failure exits (ineligible destination - also no status word -, malformed access list, index overflow), opConvert / UnwrapQi / ClaimCoinbaseLockup index-overflow exits, a lockup claim inside a frame that later reverts keeps the record deleted without emitting the ETX, two legacy pre-fork uint256-wrap behaviours. Built by a helper agent, reviewed and integrated (reports/C02_C05.md).",
   design="2/C05"),
}

NOT_YET = "check not built yet in this session (planned; see DESIGN.md section 2)"

def main():
    checks = []
    for pid in ALL:
        if pid not in CHECKS:
            continue
        c = CHECKS[pid]
        checks.append({
            "property_id": pid,
            "quick_cmd": "./vcheck %s quick" % pid,
            "thorough_cmd": "./vcheck %s thorough" % pid,
            "evidence_file": "/verif/evidence/%s.json" % pid,
            "replay_cmd_template": "./vcheck %s --replay {path}" % pid,
            "engine": c.get("engine", "vq"),
            "level_claimed": {"category": "model_checking", "text": c["text"], "design_ref": "DESIGN.md " + c["design"]},
            "level_note": c["note"],
            "technique": c["technique"],
        })
    na = [{"property_id": p, "reason": NA.get(p, NOT_YET)} for p in ALL if p not in CHECKS]
    m = {
        "version": 1,
        "setup_cmd": "./vcheck build",
        "hooks": {
            "guard": "verif",
            "enable": "go build -tags verif -overlay /verif/.build/overlay.<pid>.json (generated by mkoverlay.py: harness files are ADDED to packages of /repo at build time; /repo itself carries no hook code)",
            "baseline_off_cmd": "cd /repo && go test -mod=mod -json -vet=off -count=1 -timeout 25m ./...",
            "source_commits": [],
            "add_only": True,
        },
        "engines": [
            {"name": "vq", "path": "/verif/cmd/vq + /verif/overlay + /verif/shim", "serves_properties": sorted(CHECKS), "kind_free_text": "hand-written bounded exhaustive explorers (sequence/explicit-state BFS, deviation-bounded input enumeration, crash-prefix enumeration, controlled scheduler) driving the real go-quai code, injected through go build -overlay"},
        ],
        "checks": checks,
        "not_applicable": na,
        "notes": "Each check rebuilds the harness binary from /repo's current working tree (go build -overlay adds harness files; nothing is written to /repo). exit 2 = harness/build error (never a VIOLATION line). Known findings: /verif/known_findings.json.",
    }
    json.dump(m, open(os.path.join(V, "MANIFEST.json"), "w"), indent=1)

NA = {}
if __name__ == "__main__":
    main()
