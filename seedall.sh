#!/bin/bash
# seedall.sh [seed-dir-glob]: runs every seeded change against the check of its property (quick tier)
# through seedrun.sh and prints one line per seed: <seed> <check> <exit> <keys...>
V=$(cd "$(dirname "$0")" && pwd)
for d in $V/seeded/${1:-C*}; do
  [ -f $d/patch.diff ] || continue
  name=$(basename $d)
  chk=${name%%_*}
  out=$($V/seedrun.sh $d $chk quick 2>&1)
  rc=$(echo "$out" | grep -o "seedrun: .* exit [0-9]*" | grep -o "[0-9]*$")
  keys=$(echo "$out" | grep "^  key=" | sed 's/^  key=//' | head -4 | tr '\n' ' ')
  echo -e "$name\t$chk\texit=${rc:-?}\t$keys"
done
